package gx

import (
	"encoding/json"
	"fmt"
	"strings"

	"github.com/opsidian/parsley/parsley"

	"verif/mc/explore"
	"verif/mc/gram"
	"verif/mc/impl"
)

// C03 — Memoize is transparent, deterministic and evaluates at most once per
// position. Left-recursion-free grammars: a root expression with references to
// <= 2 shared sub-parsers (each referenced from >= 1 site; sharing is what makes
// cache hits happen) and inline Memo marks x EVERY subset of the shared
// sub-parsers memoized x every input x every start, differential against the
// same grammar built with no Memoize at all.

var fullMemo = gram.Full.With("full+memo", gram.Memo)

func c03Specs(tier string) []spaceSpec {
	if tier == "thorough" {
		return append(quietSpaces(8), []spaceSpec{
			{sp: &gram.Space{Name: "root+inline-memo", Alpha: fullMemo, HasRoot: true, Min: 2, Max: 6}, maxLen: 4, alpha: ab},
			{sp: &gram.Space{Name: "root+1shared", Alpha: fullMemo, NSh: 1, HasRoot: true, Min: 2, Max: 7}, maxLen: 4, alpha: ab},
			{sp: &gram.Space{Name: "root+2shared", Alpha: gram.Full, NSh: 2, HasRoot: true, Min: 3, Max: 7}, maxLen: 3, alpha: ab},
		}...)
	}
	return append(quietSpaces(6), []spaceSpec{
		{sp: &gram.Space{Name: "root+inline-memo", Alpha: fullMemo, HasRoot: true, Min: 2, Max: 5}, maxLen: 4, alpha: ab},
		{sp: &gram.Space{Name: "root+1shared", Alpha: fullMemo, NSh: 1, HasRoot: true, Min: 2, Max: 6}, maxLen: 4, alpha: ab},
		{sp: &gram.Space{Name: "root+2shared", Alpha: gram.Full, NSh: 2, HasRoot: true, Min: 3, Max: 6}, maxLen: 3, alpha: ab},
	}...)
}

// quietConsumers: a fixed memoized S0 that SUCCEEDS while recording a furthest error in the context
// (`Any(SeqOf(a,b), a)` on "a..."), under every small root over {SuppressError, Any, SeqOf, S0, a, b}: a cache hit
// replays node and error but not what the first run wrote into the context, which only matters if something
// (a SuppressError that restores the context, say) can take that away again.
var quietAlphabet = gram.Alphabet{Name: "suppress-consumers", Terminals: []byte{'a', 'b'}, Unary: []gram.Kind{gram.SupErr, gram.Opt}, Binary: []gram.Kind{gram.Any, gram.Seq}}

func quietSpaces(maxRoot int) []spaceSpec {
	var out []spaceSpec
	// S0 succeeds while recording a furthest error; S0 returns a match TOGETHER with an error (Optional);
	// S0 fails silently (no node, no error)
	for _, body := range []string{"(any (seq a b) a)", "(opt (seq a b))", "(suppress a)", "(suppress (seq a b))"} {
		g, err := gram.Parse("N0=" + body)
		if err != nil {
			panic(err)
		}
		out = append(out, spaceSpec{sp: &gram.Space{Name: "suppress-consumers of S0!=" + body, Alpha: quietAlphabet, HasRoot: true, Min: 2, Max: maxRoot,
			FixedShared: []*gram.Expr{g.NTs[0]}, FixedSharedMemo: []bool{true}}, maxLen: 3, alpha: ab, noSubsets: true})
	}
	return out
}

// capacityConsumers: a memoized S0 that returns 2, 3 or 5 zero-width alternatives (lists whose capacity after Go's
// append growth is 2, 4, 8: with and without a spare slot) requested two or three times at ONE position by consumers
// that extend the list they were handed (Any appends its further alternatives to the first operand's list, Optional
// appends the empty match) while an enclosing sequence is still iterating an earlier consumer's list. Size-bounded
// spaces do not reach this (10+ nodes); what is handed out on a cache hit must be as independent as on the miss.
func capacityConsumers() []string {
	bodies := []string{
		"(any (many a) (opt a))",
		"(any (many a) (sepby a b) (opt a))",
		"(any (many b) (many a) (sepby a b))",
		"(any (many a) (sepby a b) (opt a) (many (seq a b)) (sepby b a))",
		"(any (seq a) (seq a b) a)", // alternatives that are one-child non-terminals (what Single rewrites)
	}
	menu := []string{"(single S0)", "S0", "(any S0 a)", "(any S0 b)", "(any S0 (seq a b))", "(any S0 (seq a a))", "(opt S0)", "(any a S0)", "(any (seq a b) S0)", "(choice S0 a)"}
	var out []string
	for _, body := range bodies {
		for _, e1 := range menu {
			for _, e2 := range menu {
				out = append(out, fmt.Sprintf("S0!=%s; root=(seq %s %s)", body, e1, e2))
				for _, e3 := range menu {
					out = append(out, fmt.Sprintf("S0!=%s; root=(seq %s %s %s)", body, e1, e2, e3))
				}
			}
		}
	}
	return out
}

var c03Seeds = []Case{
	{Grammar: "S0!=(any (seq a S0) a); root=(any (seq S0 b) (seq S0 a))", Input: "aaab", Note: "right recursion through a shared memoized parser, two consumers"},
	{Grammar: "S0!=(opt a); root=(seq S0 S0 (any S0 b))", Input: "aab", Note: "memoized nullable shared parser hit at several positions"},
	{Grammar: "root=(seq (memo (many a)) (memo (sepby b a)))", Input: "aabab", Note: "inline memo marks"},
	{Grammar: "S0!=(choice (seq a b) a); root=(any (seq S0 b) (seq S0 a) S0)", Input: "abb", Note: "cached error and cached result"},
}

// obs is everything C03 compares between two runs.
type obs struct {
	results   []string
	errPos    int
	errText   string
	ctxErrPos int
	callCount int
	problem   string // panic / depth / budget
}

func (o obs) same(p obs) (bool, string) {
	if strings.Join(o.results, "|") != strings.Join(p.results, "|") {
		return false, fmt.Sprintf("ordered results differ: %v vs %v", o.results, p.results)
	}
	if o.errPos != p.errPos || o.errText != p.errText {
		return false, fmt.Sprintf("returned error differs: %q at %d vs %q at %d", o.errText, o.errPos, p.errText, p.errPos)
	}
	if o.ctxErrPos != p.ctxErrPos {
		return false, fmt.Sprintf("position of the furthest recorded error differs: %d vs %d", o.ctxErrPos, p.ctxErrPos)
	}
	return true, ""
}

func observe(b *impl.Built, w []byte, s int) obs {
	ctx, r, _ := impl.NewContext(w)
	b.Mon.Reset()
	o := b.Run(ctx, b.Root, r.Pos(s))
	ob := obs{errPos: -1, ctxErrPos: -1, callCount: o.CallCount}
	switch {
	case o.Panic != "":
		ob.problem = "panic: " + o.Panic
	case o.Depth != "":
		ob.problem = "depth: " + o.Depth
	case o.Budget != "":
		ob.problem = "budget"
	}
	for _, a := range impl.Alternatives(o.Node) {
		ob.results = append(ob.results, impl.Render(a, impl.Base))
	}
	if o.Err != nil {
		ob.errPos, ob.errText = int(o.Err.Pos())-impl.Base, o.Err.Error()
	}
	if e := ctx.Error(); e != nil {
		ob.ctxErrPos = int(e.Pos()) - impl.Base
	}
	return ob
}

func hasMemoNode(g *gram.Grammar) bool {
	for _, e := range g.Nodes() {
		if e.K == gram.Memo {
			return true
		}
	}
	return false
}

func c03Grammar(res *explore.Result, g *gram.Grammar, inputs [][]byte, subsets bool, verbose bool, burn int) {
	an := gram.Analyze(g)
	if !an.RepsConsume {
		res.Add("grammars_rejected_nullable_repetition", 1)
		return
	}
	if !an.LeftRecFree {
		res.Add("grammars_rejected_left_recursive", 1)
		return
	}
	res.Add("grammars_admitted", 1)
	plain := impl.Build(g, impl.Options{NoMemo: true})
	plain.Mon.BudgetCalls, plain.Mon.BudgetRes = budgetCalls, budgetResults
	type key struct {
		w string
		s int
	}
	plainObs := map[key]obs{}
	nsh := len(g.Shared)
	masks := []int{0}
	if subsets {
		masks = masks[:0]
		for m := 0; m < 1<<uint(nsh); m++ {
			masks = append(masks, m)
		}
	}
	inline := hasMemoNode(g)
	for _, mask := range masks {
		gm := g
		if subsets {
			if mask == 0 && !inline {
				continue // nothing is memoized in this build
			}
			gm, _ = gram.Parse(g.String())
			for i := 0; i < nsh; i++ {
				gm.SharedMemo[i] = mask&(1<<uint(i)) != 0
			}
		}
		res.Add("memoization_subsets", 1)
		gs := gm.String()
		b := impl.Build(gm, impl.Options{BurnBeforeLastShared: burn})
		b.Mon.BudgetCalls, b.Mon.BudgetRes = budgetCalls, budgetResults
		bad := false
		var history []string // inputs parsed before with these two grammar objects (state kept in a parser object is part of the case)
		for wi, w := range inputs {
			if bad && !verbose {
				break
			}
			if wi > 0 {
				history = append(history, string(inputs[wi-1]))
			}
			for s := 0; s <= len(w); s++ {
				k := key{string(w), s}
				po, ok := plainObs[k]
				if !ok {
					po = observe(plain, w, s)
					plainObs[k] = po
				}
				mo := observe(b, w, s)
				hits, hitsErr, hitsList := b.Mon.Hits, b.Mon.HitsErr, b.Mon.HitsList
				maxRuns := 0
				var worst [2]int
				for kk, v := range b.Mon.InnerRuns {
					if v > maxRuns {
						maxRuns, worst = v, kk
					}
				}
				res.Add("states", 1)
				res.Add("transitions", b.Mon.Calls)
				res.Add("traces", 1)
				c := Case{Placement: impl.Placement, Prior: b.MemoBefore, Grammar: gs, Input: string(w), Burn: burn, History: append([]string{}, history...)}
				where := fmt.Sprintf("%s, start %d", c, s)
				if burn > 0 {
					where += fmt.Sprintf(" [last shared parser built %d Memoize calls after the others]", burn)
				}
				if (mo.problem == "budget" || po.problem == "budget") && burn > 0 {
					bad = true
					res.Violate("work-meter-on-finite-grammar", where+": the parse did not finish within the work meter although the grammar has finitely many parses", c)
					continue
				}
				if mo.problem == "budget" || po.problem == "budget" {
					res.Undecided("work meter tripped")
					continue
				}
				viol := func(key, what string) {
					bad = true
					res.Violate(key, where+": "+what, c)
				}
				if mo.problem != "" {
					viol("panic", "memoized build: "+mo.problem)
					continue
				}
				if po.problem != "" {
					viol("panic", "un-memoized build: "+po.problem)
					continue
				}
				if same, why := mo.same(po); !same {
					key := "not-transparent:results"
					if strings.HasPrefix(why, "returned error") {
						key = "not-transparent:error"
					} else if strings.HasPrefix(why, "position of") {
						key = "not-transparent:context-error"
					}
					viol(key, "memoized vs un-memoized build: "+why)
				}
				if maxRuns > 1 {
					viol("ran-more-than-once", fmt.Sprintf("memoized parser #%d ran %d times at position %d within one parse", worst[0], maxRuns, worst[1]-1))
				}
				if mo.callCount > po.callCount {
					// the statement allows the call count to differ in either direction; this is only recorded
					res.Add("cases_with_more_calls_than_unmemoized", 1)
				}
				// determinism: a fresh context reproduces everything including the call count
				mo2 := observe(b, w, s)
				if same, why := mo.same(mo2); !same || mo.callCount != mo2.callCount {
					viol("not-deterministic", fmt.Sprintf("second run on a fresh context differs: %s (call counts %d, %d)", why, mo.callCount, mo2.callCount))
				}
				if hits > 0 {
					res.Add("nontrivial", 1)
					res.Add("cache_hits", hits)
				}
				if hitsErr > 0 {
					res.Add("cases_with_hit_returning_error", 1)
				}
				if hitsList > 0 {
					res.Add("cases_with_hit_returning_list", 1)
				}
				if verbose {
					res.Notes = append(res.Notes, fmt.Sprintf("start %d: memoized %v err=%q@%d ctxErr@%d calls=%d hits=%d | plain %v err=%q@%d ctxErr@%d calls=%d",
						s, mo.results, mo.errText, mo.errPos, mo.ctxErrPos, mo.callCount, hits, po.results, po.errText, po.errPos, po.ctxErrPos, po.callCount))
				}
				if hits > 0 && res.Counters["nontrivial"]%5000 == 1 {
					res.Sample(fmt.Sprintf("%s: %d alternative(s), %d cache hit(s), calls %d (plain %d)", where, len(mo.results), hits, mo.callCount, po.callCount))
				}
			}
		}
	}
}

func c03Run(env *explore.Env) *explore.Result {
	res := explore.NewResult()
	specs := c03Specs(env.Tier)
	if env.Shard == 0 {
		for _, c := range c03Seeds {
			g, err := gram.Parse(c.Grammar)
			if err != nil {
				res.Notes = append(res.Notes, "bad seed: "+err.Error())
				continue
			}
			res.Add("grammars", 1)
			c03Grammar(res, g, gram.Inputs(ab, len(c.Input)), false, false, 0)
		}
		// far-apart cache indexes
		for _, src := range farIndexGrammars {
			g, err := gram.Parse(src)
			if err != nil {
				res.Notes = append(res.Notes, "bad far-index grammar: "+err.Error())
				continue
			}
			for _, burn := range farIndexBurns() {
				res.Add("far_index_builds", 1)
				c03Grammar(res, g, gram.Inputs(ab, 3), false, false, burn)
			}
		}
	}
	// the file as second file of a set / reader created first / re-registered (impl.Placement 1..3): the seed corpus
	// and the smallest grammars of every space once more; the memoized and the plain build must still agree
	for pl := 1; pl <= 3; pl++ {
		impl.Placement = pl
		if env.Shard == 0 {
			for _, c := range c03Seeds {
				if g, err := gram.Parse(c.Grammar); err == nil {
					c03Grammar(res, g, gram.Inputs(ab, len(c.Input)), false, false, 0)
				}
			}
		}
		for _, s := range specs {
			if s.sp.FixedShared != nil {
				continue
			}
			small := *s.sp
			if small.Max > small.Min+1 {
				small.Max = small.Min + 1
			}
			inputs := gram.Inputs(s.alpha, 3)
			small.Each(func(idx int64, g *gram.Grammar) {
				if !env.Mine(idx) || g.FirstTerminal() == 'b' {
					return
				}
				res.Add("grammars_under_other_file_placements", 1)
				c03Grammar(res, g, inputs, !s.noSubsets, false, 0)
			})
		}
	}
	impl.Placement = 0
	for i, src := range capacityConsumers() {
		if !env.Mine(int64(i)) {
			continue
		}
		g, err := gram.Parse(src)
		if err != nil {
			res.Notes = append(res.Notes, "bad capacity-consumer grammar: "+err.Error())
			continue
		}
		res.Add("grammars", 1)
		res.Add("capacity_consumer_grammars", 1)
		c03Grammar(res, g, gram.Inputs(ab, 3), false, false, 0)
	}
	for _, s := range specs {
		inputs := gram.Inputs(s.alpha, s.maxLen)
		s.sp.Each(func(idx int64, g *gram.Grammar) {
			if !env.Mine(idx) {
				return
			}
			if g.FirstTerminal() == 'b' {
				res.Add("grammars_skipped_by_symmetry", 1)
				return
			}
			res.Add("grammars", 1)
			c03Grammar(res, g, inputs, !s.noSubsets, false, 0)
		})
	}
	return res
}

func c03Replay(raw json.RawMessage) *explore.Result {
	res := explore.NewResult()
	c, g, err := parseCase(raw)
	if err != nil {
		res.Notes = append(res.Notes, "bad case: "+err.Error())
		return res
	}
	res.Notes = append(res.Notes, "case: "+c.String())
	var inputs [][]byte
	for _, h := range c.History {
		inputs = append(inputs, []byte(h))
	}
	c03Grammar(res, g, append(inputs, []byte(c.Input)), false, true, c.Burn)
	return res
}

func c03Finish(tier string, m *explore.Result) {
	// non-vacuity: the run must have seen cache hits, hits that returned an error and hits that returned a list
	for _, k := range []string{"nontrivial", "cases_with_hit_returning_error", "cases_with_hit_returning_list"} {
		if m.Counters[k] == 0 {
			m.Incomplete = append(m.Incomplete, "non-vacuity: counter "+k+" is zero, the exploration did not exercise that cache path")
		}
	}
}

var _ = parsley.Pos(0)

func init() {
	explore.Register(&explore.Check{
		ID:    "C03",
		Level: "model_checking",
		Rule: "every left-recursion-free grammar of the stated spaces (root expression + shared sub-parsers referenced from several sites + inline Memoize marks) x every subset of shared sub-parsers memoized x every input x every start position; " +
			"differential against the same grammar built without any Memoize: ordered results, returned error (position+text), position of Context.Error(); body executions per (memoized parser, position) <= 1; second run on a fresh context identical incl. CallCount; " +
			"plus 5 000 capacity-consumer grammars (a memoized parser with 2/3/5 zero-width alternatives requested two or three times at one position by list-extending consumers inside a sequence); " +
			"plus four two-parser grammars built with the second memoized parser's cache index 2^k (k = 8..17) away from the first; transition = one parser call; non-trivial = a case with at least one cache hit (a request answered without running the body)",
		Assume: []string{"the un-memoized build of the same library is the reference (C01 ties it to the semantics)"},
		Run:    c03Run,
		Replay: c03Replay,
		Finish: c03Finish,
		Bounds: func(tier string) map[string]any { return boundsOf(c03Specs(tier), c03Seeds) },
	})
}
