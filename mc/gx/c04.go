package gx

import (
	"encoding/json"
	"fmt"

	"github.com/opsidian/parsley/combinator"
	"github.com/opsidian/parsley/parsley"

	"verif/mc/explore"
	"verif/mc/gram"
	"verif/mc/impl"
	"verif/mc/ref"
)

// C04 — Parse yields a node or an error, never neither; Sentence means whole
// input. Every terminating grammar (admitted or not) x {unnamed, all named} x
// {Sentence(N0), bare N0} x every input, through parsley.Parse and
// parsley.Evaluate with an interpreter bound to every non-terminal.

// fullAll adds the two remaining result-transforming combinators (SuppressError, Single) to the full alphabet.
var fullAll = gram.Full.With("full+suppress+single", gram.SupErr, gram.Single)

// fullTrimEnd: the full alphabet plus Left/RightTrim (spaces; spaces and newlines) and parser.End() as a leaf, inputs
// over {a, b, space}: every node type the library hands to ast.SetReaderPos occurs under a trim. The reference does
// not model trims, so these grammars are explored for the unconditional clauses (node xor error, no panic, root span).
var fullTrimEnd = func() gram.Alphabet {
	a := gram.Full.With("full+trim(1,2)+end", gram.LTrim, gram.RTrim)
	a.TrimModes = []int{1, 2}
	a.End = true
	return a
}()
var abSp = []byte{'a', 'b', ' ', '\n'}

func c04Specs(tier string) []spaceSpec {
	if tier == "thorough" {
		return []spaceSpec{
			{sp: &gram.Space{Name: "full-1nt", Alpha: gram.Full, NNT: 1, Min: 1, Max: 5}, maxLen: 4, alpha: ab},
			{sp: &gram.Space{Name: "core-1nt", Alpha: gram.Core, NNT: 1, Min: 6, Max: 6}, maxLen: 4, alpha: ab},
			{sp: &gram.Space{Name: "full-2nt", Alpha: gram.Full, NNT: 2, Min: 2, Max: 5}, maxLen: 3, alpha: ab},
			{sp: &gram.Space{Name: "all-combinators-1nt", Alpha: fullAll, NNT: 1, Min: 2, Max: 5}, maxLen: 3, alpha: ab},
			{sp: &gram.Space{Name: "full+trims+end-1nt", Alpha: fullTrimEnd, NNT: 1, Min: 2, Max: 5}, maxLen: 3, alpha: abSp},
			{sp: &gram.Space{Name: "core1-2nt-mutual", Alpha: gram.Core1, NNT: 2, Min: 2, Max: 8}, maxLen: 3, alpha: []byte{'a'}, mutualOnly: true},
			templateSpec("ab", 3, 1, 3),
		}
	}
	return []spaceSpec{
		{sp: &gram.Space{Name: "full-1nt", Alpha: gram.Full, NNT: 1, Min: 1, Max: 4}, maxLen: 4, alpha: ab},
		{sp: &gram.Space{Name: "core-1nt", Alpha: gram.Core, NNT: 1, Min: 5, Max: 5}, maxLen: 4, alpha: ab},
		{sp: &gram.Space{Name: "full-2nt", Alpha: gram.Full, NNT: 2, Min: 2, Max: 4}, maxLen: 3, alpha: ab},
		{sp: &gram.Space{Name: "all-combinators-1nt", Alpha: fullAll, NNT: 1, Min: 2, Max: 4}, maxLen: 3, alpha: ab},
		{sp: &gram.Space{Name: "full+trims+end-1nt", Alpha: fullTrimEnd, NNT: 1, Min: 2, Max: 4}, maxLen: 3, alpha: abSp},
		{sp: &gram.Space{Name: "core1-2nt-mutual", Alpha: gram.Core1, NNT: 2, Min: 2, Max: 7}, maxLen: 2, alpha: []byte{'a'}, mutualOnly: true},
		templateSpec("ab", 3, 1, 2),
	}
}

var c04Seeds = append([]Case{
	{Grammar: "N0=(any a b)", Input: "c", Note: "Sentence(Any(a,b)) on 'c' (C04 statement)"},
	{Grammar: "N0=(seq N0 a)", Input: "a", Note: "failure by curtailment only"},
	{Grammar: "N0=(choice a b)", Input: "", Note: "Choice at end of input"},
}, seedCorpus...)

type c04Variant struct {
	named    bool
	sentence bool
}

func (v c04Variant) String() string {
	s := "bare N0"
	if v.sentence {
		s = "Sentence(N0)"
	}
	if v.named {
		s += ", all Any/Choice named"
	}
	return s
}

func withNamed(g *gram.Grammar, named bool) *gram.Grammar {
	g2, err := gram.Parse(g.String())
	if err != nil {
		panic(err)
	}
	g2.Named = named
	return g2
}

func c04Grammar(res *explore.Result, g *gram.Grammar, inputs [][]byte, verbose bool) {
	an := gram.Analyze(g)
	if !an.RepsConsume {
		res.Add("grammars_rejected_nullable_repetition", 1)
		return
	}
	res.Add("grammars_explored", 1)
	admitted := an.Admitted()
	trims := false
	for _, e := range g.Nodes() {
		if e.K == gram.LTrim || e.K == gram.RTrim {
			trims = true
			if e.K == gram.RTrim || (e.Mode != 2 && e.Kids[0].K != gram.T) {
				// the reference models LeftTrim in the mode that never fails (spaces and new lines, what text.Trim
				// uses) and, in every mode, directly around a terminal (a token, the case C10 specifies); in the other
				// modes around other operands, and for RightTrim, what "some parse" means next to an operand that matches
				// empty is not settled by the statement: those grammars are held to the unconditional clauses only
				admitted = false
			}
		}
		if e.K == gram.Single {
			// combinator.Single drops its operand's result whenever the operand also returned an error (Optional
			// does that), a behaviour its own unit test pins; the reference does not model returned errors, so
			// grammars containing Single are explored for the unconditional clauses only
			admitted = false
		}
	}
	if admitted {
		res.Add("grammars_admitted_for_sentence_oracle", 1)
	}
	body := g.NTs[0].ID
	bad := false
	for _, named := range []bool{false, true} {
		gv := withNamed(g, named)
		gs := gv.String()
		b := impl.Build(gv, impl.Options{Interp: impl.Concat})
		b.Mon.BudgetCalls, b.Mon.BudgetRes = budgetCalls, budgetResults
		for _, sentence := range []bool{true, false} {
			v := c04Variant{named, sentence}
			var root parsley.Parser = &b.NT[0]
			if sentence {
				root = combinator.Sentence(&b.NT[0])
			}
			explosiveFrom := -1
			var history []string // inputs parsed before with this grammar object (in this variant)
			for _, w := range inputs {
				if explosiveFrom >= 0 && len(w) >= explosiveFrom {
					res.Add("cases_skipped_after_meter_tripped", 1)
					continue
				}
				n := len(w)
				c := Case{Placement: impl.Placement, Prior: b.MemoBefore, Grammar: gs, Input: string(w), Note: v.String(), History: append([]string{}, history...)}
				history = append(history, string(w))
				where := fmt.Sprintf("%s [%s]", c, v)
				res.Add("states", 1)

				// parsley.Parse
				var node parsley.Node
				var perr error
				ctx, _, _ := impl.NewContext(w)
				b.Mon.Reset()
				g1 := b.Guard(func() { node, perr = parsley.Parse(ctx, root) })
				res.Add("transitions", b.Mon.Calls)
				// parsley.Evaluate on a fresh context
				var val interface{}
				var eerr error
				ctx2, _, _ := impl.NewContext(w)
				b.Mon.Reset()
				g2 := b.Guard(func() { val, eerr = parsley.Evaluate(ctx2, root) })
				res.Add("transitions", b.Mon.Calls)
				res.Add("traces", 1)
				if n <= 2 && g1.Budget == "" && g2.Budget == "" && g1.Panic == "" && g2.Panic == "" && g1.Depth == "" {
					// the optional passes switched on (no interpreter of these grammars transforms or checks anything):
					// still a value or an error, never a panic, and the same verdict
					var val3 interface{}
					var eerr3 error
					ctx3, _, _ := impl.NewContext(w)
					ctx3.EnableTransformation()
					ctx3.EnableStaticCheck()
					b.Mon.Reset()
					g3 := b.Guard(func() { val3, eerr3 = parsley.Evaluate(ctx3, root) })
					if g3.Panic != "" {
						bad = true
						res.Violate("panic-in-evaluate", where+": parsley.Evaluate with transformation and static check enabled panicked: "+g3.Panic, c)
					} else if g3.Budget == "" && g3.Depth == "" && (eerr3 == nil) != (eerr == nil) {
						bad = true
						res.Violate("optional-passes-change-the-verdict", fmt.Sprintf("%s: Evaluate gives %v, %v; with transformation and static check enabled %v, %v", where, val, eerr, val3, eerr3), c)
					}
				}

				if g1.Budget != "" || g2.Budget != "" {
					if explosiveFrom < 0 {
						explosiveFrom = n + 1
					}
					res.Undecided(fmt.Sprintf("work meter (%d) tripped on explosively ambiguous grammars; longer inputs of such a grammar are skipped and counted", budgetCalls))
					continue
				}
				viol := func(key, what string) {
					bad = true
					res.Violate(key, where+": "+what, c)
				}
				switch {
				case g1.Depth != "":
					viol("unbounded-reentry", g1.Depth)
					continue
				case g1.Panic != "":
					viol("panic-in-parse", "parsley.Parse panicked: "+g1.Panic)
					continue
				}
				if node == nil && perr == nil {
					viol("neither-node-nor-error", "parsley.Parse returned (nil, nil)")
				}
				if node != nil && perr != nil {
					viol("both-node-and-error", fmt.Sprintf("parsley.Parse returned a node AND an error (%v)", perr))
				}
				switch {
				case g2.Depth != "":
					viol("unbounded-reentry", g2.Depth)
				case g2.Panic != "":
					viol("panic-in-evaluate", "parsley.Evaluate panicked: "+g2.Panic)
				default:
					if val != nil && eerr != nil {
						viol("evaluate-value-and-error", fmt.Sprintf("parsley.Evaluate returned value %v AND error %v", val, eerr))
					}
					if perr != nil && eerr == nil {
						viol("evaluate-succeeds-where-parse-fails", fmt.Sprintf("Parse error %q but Evaluate returned value %v", perr, val))
					}
				}
				ok := node != nil && perr == nil
				if ok {
					res.Outcome("success/" + v.String())
				} else {
					res.Outcome("failure/" + v.String())
				}
				// The acceptance clause of the property is about Sentence roots only. (A bare root such as
				// Optional(a) legitimately returns its empty match TOGETHER with the operand's error, which
				// parsley.Parse reports as a failure; the statement says nothing about that.)
				if admitted && sentence {
					t := ref.Compute(g, an, w, false)
					want := t.Ends[body][0]&(1<<uint(n)) != 0
					res.Add("sentence_oracle_cases", 1)
					if want {
						res.Add("nontrivial", 1)
					}
					if ok != want && !(node == nil && perr == nil) {
						if want {
							viol("rejects-derivable-input", fmt.Sprintf("the grammar derives the whole input (reference ends of N0 at 0: %v) but Parse failed: %v", t.EndSet(body, 0), perr))
						} else {
							viol("accepts-underivable-input", fmt.Sprintf("no derivation consumes the input (reference ends of N0 at 0: %v, length %d) but Parse returned %s", t.EndSet(body, 0), n, impl.Render(node, impl.Base)))
						}
					}
				}
				if ok && sentence {
					// under a trim the first token keeps its own start (C10) and an empty match is a bare position that moves
					// with its end, so with trims only the END of the tree is held to the statement
					if (!trims && int(node.Pos()) != impl.Base) || int(node.ReaderPos()) != impl.Base+n {
						viol("root-span", fmt.Sprintf("Sentence succeeded but the root spans <%d,%d>, input is <0,%d>", int(node.Pos())-impl.Base, int(node.ReaderPos())-impl.Base, n))
					}
				}
				if verbose {
					res.Notes = append(res.Notes, fmt.Sprintf("[%s] Parse -> node=%s err=%v | Evaluate -> value=%#v err=%v", v, impl.Render(node, impl.Base), perr, val, eerr))
				}
				if res.Counters["states"]%20000 == 1 {
					res.Sample(fmt.Sprintf("%s -> node=%s err=%v", where, impl.Render(node, impl.Base), perr))
				}
			}
		}
	}
	_ = bad
}

func c04Run(env *explore.Env) *explore.Result {
	res := explore.NewResult()
	eachGrammarPlaced(env, res, c04Specs(env.Tier), c04Seeds, func(g *gram.Grammar, inputs [][]byte, fromSeed bool) {
		if fromSeed {
			inputs = append(inputs, []byte("c"))
		}
		c04Grammar(res, g, inputs, false)
	})
	// two left-trimmed tokens with DIFFERENT whitespace modes tried at one position (every ordered pair of modes,
	// three shapes): the verdict on a run belongs to the mode that asked
	idx := int64(0)
	for m1 := 0; m1 <= 3; m1++ {
		for m2 := 0; m2 <= 3; m2++ {
			if m1 == m2 {
				continue
			}
			for _, tmpl := range []string{"N0=(any (ltrim%d a) (ltrim%d a))", "N0=(seq (opt (ltrim%d b)) (ltrim%d a))", "N0=(any (seq (ltrim%d a) b) (ltrim%d a))"} {
				idx++
				if !env.Mine(idx) {
					continue
				}
				g, err := gram.Parse(fmt.Sprintf(tmpl, m1, m2))
				if err != nil {
					res.Notes = append(res.Notes, "bad mode-mixing grammar: "+err.Error())
					continue
				}
				res.Add("grammars", 1)
				res.Add("mode_mixing_grammars", 1)
				c04Grammar(res, g, gram.Inputs(abSp, 3), false)
			}
		}
	}
	return res
}

func c04Replay(raw json.RawMessage) *explore.Result {
	res := explore.NewResult()
	c, g, err := parseCase(raw)
	if err != nil {
		res.Notes = append(res.Notes, "bad case: "+err.Error())
		return res
	}
	res.Notes = append(res.Notes, "case: "+c.String())
	g.Named = false
	var inputs [][]byte
	for _, h := range c.History {
		inputs = append(inputs, []byte(h))
	}
	c04Grammar(res, g, append(inputs, []byte(c.Input)), true)
	return res
}

func init() {
	explore.Register(&explore.Check{
		ID:    "C04",
		Level: "model_checking",
		Rule: "every grammar of the stated spaces whose repetitions consume input x {unnamed, every Any/Choice named} x {Sentence(N0), bare N0} x every input, through parsley.Parse and parsley.Evaluate (concatenating interpreter on every non-terminal); " +
			"oracles: exactly one of node/error, no panic, Evaluate value xor error, root span, and for admitted (stratified) grammars acceptance == the reference's end-position table; " +
			"transition = one parser call observed by a wrapper; non-trivial = a case the reference says must be ACCEPTED (so the success path, early exit at EOF and root span are exercised), failures being the other half",
		Assume: []string{"reference ends-only table (mc/ref) decides acceptance for stratified grammars only; for the others only the unconditional clauses are judged"},
		Run:    c04Run,
		Replay: c04Replay,
		Bounds: func(tier string) map[string]any { return boundsOf(c04Specs(tier), c04Seeds) },
	})
}
