package gx

import (
	"bytes"
	"encoding/json"
	"fmt"
	"os"
	"os/exec"

	"github.com/opsidian/parsley/parsley"

	"verif/mc/explore"
	"verif/mc/gram"
	"verif/mc/impl"
)

// C02 — termination with bounded re-entry. Every grammar whose repetition
// operands consume input (stratified or not, productive or not) x every input x
// every start position; invariant on every execution of a memoized body:
// simultaneously active executions at one position <= Remaining(pos)+2.

// fullTrimNl: the full alphabet plus Left/RightTrim in the modes whose error does not imply that input was skipped
// (spaces-and-newlines never errs, force-newline errs on an EMPTY run), inputs over {a, b, LF}
var fullTrimNl = func() gram.Alphabet {
	a := gram.Full.With("full+trim(2,3)", gram.LTrim, gram.RTrim)
	a.TrimModes = []int{2, 3}
	return a
}()
var abNl = []byte{'a', 'b', '\n'}

func c02Specs(tier string) []spaceSpec {
	if tier == "thorough" {
		return []spaceSpec{
			{sp: &gram.Space{Name: "full-1nt", Alpha: gram.Full, NNT: 1, Min: 1, Max: 5}, maxLen: 4, alpha: ab},
			{sp: &gram.Space{Name: "core-1nt", Alpha: gram.Core, NNT: 1, Min: 6, Max: 7}, maxLen: 4, alpha: ab},
			{sp: &gram.Space{Name: "full-2nt", Alpha: gram.Full, NNT: 2, Min: 2, Max: 6}, maxLen: 3, alpha: ab},
			{sp: &gram.Space{Name: "full+trims-1nt", Alpha: fullTrimNl, NNT: 1, Min: 2, Max: 5}, maxLen: 3, alpha: abNl},
		}
	}
	return []spaceSpec{
		{sp: &gram.Space{Name: "full-1nt", Alpha: gram.Full, NNT: 1, Min: 1, Max: 4}, maxLen: 4, alpha: ab},
		{sp: &gram.Space{Name: "core-1nt", Alpha: gram.Core, NNT: 1, Min: 5, Max: 6}, maxLen: 4, alpha: ab},
		{sp: &gram.Space{Name: "full-2nt", Alpha: gram.Full, NNT: 2, Min: 2, Max: 5}, maxLen: 3, alpha: ab},
		{sp: &gram.Space{Name: "full+trims-1nt", Alpha: fullTrimNl, NNT: 1, Min: 2, Max: 4}, maxLen: 3, alpha: abNl},
	}
}

const (
	budgetCalls   = 100000
	budgetResults = 100000
)

func c02Grammar(res *explore.Result, g *gram.Grammar, inputs [][]byte, keepGoing bool, burn int) {
	c02Build(res, g, inputs, keepGoing, burn)
	if n := len(inputs); n > 3 && len(inputs[n-1]) > len(inputs[0]) {
		// a second, fresh build of the grammar whose FIRST parse is the longest input, followed by the shortest ones:
		// what a parser object learns on its first call must not set the bound for later, shorter inputs
		c02Build(res, g, [][]byte{inputs[n-1], inputs[0], inputs[1]}, keepGoing, burn)
	}
}

func c02Build(res *explore.Result, g *gram.Grammar, inputs [][]byte, keepGoing bool, burn int) {
	an := gram.Analyze(g)
	if !an.RepsConsume {
		res.Add("grammars_rejected_nullable_repetition", 1)
		return
	}
	if !an.CyclesMemoized() {
		res.Add("grammars_rejected_unmemoized_cycle", 1)
		return
	}
	res.Add("grammars_admitted", 1)
	if !an.Stratified {
		res.Add("grammars_unstratified_included", 1)
	}
	b := impl.Build(g, impl.Options{BurnBeforeLastShared: burn})
	b.Mon.BudgetCalls, b.Mon.BudgetRes = budgetCalls, budgetResults
	gs := g.String()
	violated := false
	explosiveFrom := -1  // inputs are ordered by length: once the work meter trips at length l, longer inputs only get worse
	var history []string // inputs parsed before with this grammar object
	// inputs come shortest first; the shortest ones are parsed once more AFTER the longest: whatever a parser object
	// remembers from a long input must not widen the bound on a short one
	if n := len(inputs); n > 3 && len(inputs[n-1]) > len(inputs[0]) {
		inputs = append(append([][]byte{}, inputs...), inputs[0], inputs[1], inputs[2])
	}
	for wi, w := range inputs {
		if wi > 0 && !(explosiveFrom >= 0 && len(inputs[wi-1]) >= explosiveFrom) {
			history = append(history, string(inputs[wi-1]))
		}
		if violated && !keepGoing {
			return // one violating input per grammar is enough (and a broken parser may not be safe to keep driving)
		}
		if explosiveFrom >= 0 && len(w) >= explosiveFrom {
			res.Add("cases_skipped_after_meter_tripped", int64(len(w)+1)*int64(len(b.NT)))
			continue
		}
		for s := 0; s <= len(w); s++ {
			for nt0 := -1; nt0 < 2*len(b.NT)+1; nt0++ {
				// every entry point twice: plain, and (short inputs) with the optional passes enabled on the context
				nt, flagged := nt0, false
				if nt0 >= len(b.NT) {
					if len(w) > 2 {
						break
					}
					nt, flagged = nt0-len(b.NT)-1, true
				}
				// entry points: every nonterminal, and the root expression when the grammar has one
				var entry parsley.Parser
				if nt >= 0 {
					entry = &b.NT[nt]
				} else if g.Root != nil {
					entry = b.Root
				} else {
					continue
				}
				ctx, r, _ := impl.NewContext(w)
				if flagged {
					// the optional passes switched on in the context: what the context is configured to do AFTER the
					// parse must not change how often a parser may re-enter
					ctx.EnableTransformation()
					ctx.EnableStaticCheck()
				}
				b.Mon.Reset()
				o := b.Run(ctx, entry, r.Pos(s))
				res.Add("states", 1)
				res.Add("transitions", b.Mon.InnerCalls)
				res.Add("traces", 1)
				if b.Mon.MaxActive >= 2 {
					res.Add("nontrivial", 1)
				}
				res.Outcome(fmt.Sprintf("max_active=%d,remaining=%d", b.Mon.MaxActive, len(w)-s))
				c := Case{Placement: impl.Placement, Prior: b.MemoBefore, Grammar: gs, Input: string(w), Burn: burn, History: append([]string{}, history...)}
				if burn > 0 && o.Budget != "" {
					// these grammars have finitely many parses: running out of the work meter means the parse does not terminate
					if !violated || keepGoing {
						res.Violate("does-not-terminate", fmt.Sprintf("%s, parsing N%d at %d with the last shared parser built %d Memoize calls after the others: still running after %d calls", c, nt, s, burn, budgetCalls), c)
					}
					violated = true
					continue
				}
				switch {
				case o.Depth != "":
					if !violated || keepGoing {
						res.Violate("unbounded-reentry", fmt.Sprintf("%s, parsing N%d at %d: %s", c, nt, s, o.Depth), c)
					}
					violated = true
				case o.Panic != "":
					if !violated || keepGoing {
						res.Violate("panic", fmt.Sprintf("%s, parsing N%d at %d: library panic: %s", c, nt, s, o.Panic), c)
					}
					violated = true
				case o.Budget != "":
					if explosiveFrom < 0 {
						explosiveFrom = len(w) + 1
						res.Add(fmt.Sprintf("grammars_meter_tripped_at_len_%d", len(w)), 1)
					}
					res.Undecided(fmt.Sprintf("work meter (%d calls / %d results) tripped on explosively ambiguous grammars (first at the recorded input length; longer inputs of such a grammar are skipped and counted); the depth invariant held on every executed step", budgetCalls, budgetResults))
				}
				if res.Counters["states"]%5000 == 1 {
					res.Sample(fmt.Sprintf("%s start=%d: max simultaneously active=%d (bound %d)", c, s, b.Mon.MaxActive, len(w)-s+2))
				}
			}
		}
	}
}

func c02Run(env *explore.Env) *explore.Result {
	res := explore.NewResult()
	if env.Shard == 0 {
		// first, and flushed: the far-apart cache index scenarios
		for _, src := range farIndexGrammars {
			g, err := gram.Parse(src)
			if err != nil {
				continue
			}
			for _, burn := range farIndexBurns() {
				res.Add("far_index_builds", 1)
				c02Grammar(res, g, gram.Inputs(ab, 3), false, burn)
				res.Flush()
			}
		}
	}
	eachGrammarPlaced(env, res, c02Specs(env.Tier), seedCorpus, func(g *gram.Grammar, inputs [][]byte, _ bool) {
		c02Grammar(res, g, inputs, false, 0)
	})
	return res
}

func c02Replay(raw json.RawMessage) *explore.Result {
	res := explore.NewResult()
	var crash struct {
		Shard  *int   `json:"crashed_shard"`
		Shards int    `json:"shards"`
		Tier   string `json:"tier"`
		Seed   int64  `json:"seed"`
	}
	if json.Unmarshal(raw, &crash) == nil && crash.Shard != nil {
		// re-run that worker: the case reproduces if it dies of a fatal runtime error again
		self, _ := os.Executable()
		cmd := exec.Command(self, "worker", "C02", crash.Tier, fmt.Sprint(*crash.Shard), fmt.Sprint(crash.Shards), fmt.Sprint(crash.Seed))
		cmd.Env = append(os.Environ(), "GOMAXPROCS=1", "GOTRACEBACK=single")
		out, err := cmd.CombinedOutput()
		if err != nil && (bytes.Contains(out, []byte("fatal error")) || bytes.Contains(out, []byte("out of memory"))) {
			res.Violate("worker-crash", "the worker died of a fatal runtime error again", json.RawMessage(raw))
		}
		return res
	}
	c, g, err := parseCase(raw)
	if err != nil {
		res.Notes = append(res.Notes, "bad case: "+err.Error())
		return res
	}
	res.Notes = append(res.Notes, "case: "+c.String())
	var inputs [][]byte
	for _, h := range c.History {
		inputs = append(inputs, []byte(h))
	}
	c02Grammar(res, g, append(inputs, []byte(c.Input)), true, c.Burn)
	return res
}

func init() {
	explore.Register(&explore.Check{
		ID:    "C02",
		Level: "model_checking",
		Rule: "every grammar of the stated spaces whose repetition operands consume input (unstratified, cyclic and unproductive ones included) x every input x every start position x every nonterminal, " +
			"run on the real parsers with a probe inside each Memoize; transition = one execution of a memoized body; non-trivial = a case in which some memoized parser was re-entered at the same position (>= 2 simultaneously active executions)",
		Assume:           []string{"single-byte terminals a,b; grammars and inputs above the bounds are not covered", "a<->b symmetric grammars are represented by one member"},
		Run:              c02Run,
		CrashIsViolation: true,
		Replay:           c02Replay,
		Bounds:           func(tier string) map[string]any { return boundsOf(c02Specs(tier), seedCorpus) },
	})
}
