// Package gx holds the grammar x input explorer checks (C01, C02, C03, C04,
// C06, C07): every grammar of a bounded space x every input up to a length bound
// x every start position, real parsers against the reference model and run-time
// monitors.
package gx

import (
	"encoding/json"
	"fmt"
	"os"
	"sort"
	"strconv"
	"strings"

	"verif/mc/explore"
	"verif/mc/gram"
	"verif/mc/impl"
	"verif/mc/ref"
)

// Case is the replayable unit: one grammar and one input (all start positions
// and the warm/cold history are re-run on replay).
type Case struct {
	Placement int    `json:"placement,omitempty"`                  // impl.Placement under which the case was run
	Prior     int    `json:"memoize_calls_before_build,omitempty"` // impl.MemoCount when the grammar was built (replay burns up to it)
	Burn      int    `json:"burn_indexes,omitempty"`               // throw-away Memoize calls made before the last shared sub-parser was built
	Grammar   string `json:"grammar"`
	// History: the inputs parsed earlier with the SAME grammar object (a grammar is built once and used for
	// every input of the enumeration); replayed first, in order, so that state kept in the parser graph is reproduced
	History []string `json:"inputs_parsed_before_with_this_grammar,omitempty"`
	// Tokens: the terminals were built with token names that collide with the library's own (impl.Tokens)
	Tokens bool `json:"terminals_named_like_library_tokens,omitempty"`
	// Percent: C06's variant in which terminal a is '%' and the file name contains a '%'
	Percent bool   `json:"percent_sign_in_terminal_and_file_name,omitempty"`
	Input   string `json:"input"`
	Note    string `json:"note,omitempty"`
}

func (c Case) String() string {
	if c.Placement != 0 {
		return fmt.Sprintf("%s on %q (file placement %d)", c.Grammar, c.Input, c.Placement)
	}
	return fmt.Sprintf("%s on %q", c.Grammar, c.Input)
}

var ab = []byte{'a', 'b'}

// CollidingTokens names the terminals a and b like the library names the empty match and a sequence. ("EOF" is not
// used: parser.EOF is an exported constant by which the sequence recognises the end-of-input node, a reserved name.)
var CollidingTokens = map[byte]string{'a': "EMPTY", 'b': "SEQ"}

// spaceSpec names a grammar space and the input length bound used with it.
type spaceSpec struct {
	// tmpl, when set, replaces sp: grammars come from a template space (sp is still set, for the description only)
	tmpl   *gram.TemplateSpace
	sp     *gram.Space
	maxLen int
	alpha  []byte
	// mutualOnly keeps only grammars in which N0 and N1 lie on a common same-position
	// cycle (mutual / hidden left recursion through both nonterminals): the part of the
	// two-nonterminal space in which the curtailment bookkeeping of two parsers interacts.
	mutualOnly bool
	// finiteOnShort keeps only grammars whose derivation-tree sets are finite on the inputs "" and "a"
	// (no epsilon cycles): a cheap filter that removes the explosively ambiguous part of a deep space
	finiteOnShort bool
	// noSymmetryCut: also run the grammars whose first terminal is b (self-test of the a<->b symmetry argument)
	noSymmetryCut bool
	// noSubsets: build the shared sub-parsers exactly as the space says (no enumeration of memoization subsets)
	noSubsets bool
}

func (s spaceSpec) describe() string {
	d := fmt.Sprintf("%s: alphabet=%s nonterminals=%d shared=%d total size %d..%d, inputs over %q up to length %d",
		s.sp.Name, s.sp.Alpha.Name, s.sp.NNT, s.sp.NSh, s.sp.Min, s.sp.Max, string(s.alpha), s.maxLen)
	if s.tmpl != nil {
		d = fmt.Sprintf("%s: two mutually left-recursive nonterminals, N0 = Any of 1..%d and N1 = Any of 1..%d alternatives from the hidden-left-recursion templates {t, Nj, (seq Nj t), (seq eps Nj t), (seq (opt t) Nj t')} over %q, inputs up to length %d",
			s.tmpl.Name, s.tmpl.MaxAlts, s.tmpl.MaxAlts1, string(s.tmpl.Letters), s.maxLen)
	}
	if s.mutualOnly {
		d += ", only grammars whose two nonterminals lie on a common same-position cycle"
	}
	if s.finiteOnShort {
		d += ", only grammars with finitely many derivation trees on the inputs \"\" and \"a\""
	}
	return d
}

// templateSpec builds the spec of a hidden-left-recursion template space.
func templateSpec(letters string, alts0, alts1, maxLen int) spaceSpec {
	name := fmt.Sprintf("hidden-left-recursion templates %s/%d/%d", letters, alts0, alts1)
	ts := &gram.TemplateSpace{Name: name, Letters: []byte(letters), MaxAlts: alts0, MaxAlts1: alts1}
	return spaceSpec{tmpl: ts, sp: &gram.Space{Name: name, Alpha: gram.Core, NNT: 2, Min: 99, Max: 99}, maxLen: maxLen, alpha: []byte(letters)}
}

// specsFromEnv lets a targeted deep run override the spaces:
// VERIF_SPACES="full,2,7,8,3;core,1,8,8,4" = alphabet,nonterminals,min,max,input length.
func specsFromEnv(def []spaceSpec) []spaceSpec {
	v := os.Getenv("VERIF_SPACES")
	if v == "" {
		return def
	}
	if strings.HasPrefix(v, "template,") { // template,<letters>,<maxAlts0>,<maxAlts1>,<len>
		f := strings.Split(v, ",")
		a0, _ := strconv.Atoi(f[2])
		a1, _ := strconv.Atoi(f[3])
		l, _ := strconv.Atoi(f[4])
		ts := &gram.TemplateSpace{Name: "env-template", Letters: []byte(f[1]), MaxAlts: a0, MaxAlts1: a1}
		return []spaceSpec{{tmpl: ts, sp: &gram.Space{Name: "env-template", Alpha: gram.Core, NNT: 2, Min: 99, Max: 99}, maxLen: l, alpha: []byte(f[1])}}
	}
	var out []spaceSpec
	for _, part := range strings.Split(v, ";") {
		f := strings.Split(part, ",")
		if len(f) != 5 {
			continue
		}
		al := gram.Full
		letters := ab
		if f[0] == "core" {
			al = gram.Core
		}
		if f[0] == "core1" {
			al = gram.Core1
			letters = []byte{'a'}
		}
		atoi := func(s string) int { n, _ := strconv.Atoi(s); return n }
		out = append(out, spaceSpec{sp: &gram.Space{Name: "env-" + part, Alpha: al, NNT: atoi(f[1]), Min: atoi(f[2]), Max: atoi(f[3])}, maxLen: atoi(f[4]), alpha: letters, mutualOnly: os.Getenv("VERIF_MUTUAL") != ""})
	}
	return out
}

func boundsOf(specs []spaceSpec, seeds []Case) map[string]any {
	var d []string
	for _, s := range specs {
		d = append(d, s.describe())
	}
	return map[string]any{"spaces": d, "seed_corpus_cases": len(seeds)}
}

// seed corpus: the properties' own examples and the smallest counterexamples
// ever found; always run first, by every tier.
// farIndexGrammars have two memoized parsers that meet at the same positions; they are built with the second one's
// cache index 2^k away from the first one's (k = 8..17): whatever width the cache gives a parser index, two live
// parsers must never share an entry. All of them have finitely many parses on every input.
var farIndexGrammars = []string{
	"S0!=a; S1!=b; root=(seq (any S0 S1) (any S0 S1))",
	"S0!=(opt b); S1!=a; root=(seq S0 (many S1))",
	"S0!=(any a (seq a b)); S1!=(choice b a); root=(any (seq S0 S1) (seq S1 S0))",
	"N0=(any (seq N0 a) S0 a); S0!=(opt b); root=(seq N0 S0)",
}

func farIndexBurns() []int {
	var out []int
	for k := 8; k <= 17; k++ {
		out = append(out, 1<<uint(k)-1)
	}
	return out
}

var seedCorpus = []Case{
	{Grammar: "N0=(any (seq N0 b) a)", Input: "abbb", Note: "P -> P b | a (main_test.go)"},
	{Grammar: "N0=(seq (any N0 a (opt N0)) b)", Input: "abbb", Note: "P -> (P | a | P?) b (C01 statement)"},
	{Grammar: "N0=(any (seq (opt b) N0 b) a)", Input: "bab", Note: "P -> x? P b | a on xab (C02 statement)"},
	{Grammar: "N0=(opt (seq N0 N0))", Input: "a", Note: "smallest C02 counterexample of the pinned tree"},
	{Grammar: "N0=(seq (any N0 (opt N0) b) a)", Input: "aa", Note: "smallest C01 counterexample of the pinned tree"},
	{Grammar: "N0=(any (seq N1 a) a); N1=(any (seq N0 b) b)", Input: "abab", Note: "mutual left recursion"},
	{Grammar: "N0=(any (seq eps N0 b) a)", Input: "abb", Note: "hidden left recursion through an empty prefix"},
	{Grammar: "N0=(any (seq N0 N0) a eps)", Input: "aa", Note: "cyclic, nullable, infinitely ambiguous"},
	{Grammar: "N0=(any (seq N0 b N0) a)", Input: "ababa", Note: "ambiguous binary operator"},
	{Grammar: "N0=(seq (many a) (sepby b a) (opt N0))", Input: "aabab", Note: "repetitions + right recursion"},
	{Grammar: "N0=(choice (seqtry a N0 b) (seqfoa a b N0) eps)", Input: "aab", Note: "first-match and longest-path operators"},
}

func parseCase(raw json.RawMessage) (Case, *gram.Grammar, error) {
	var c Case
	if err := json.Unmarshal(raw, &c); err != nil {
		return c, nil, err
	}
	g, err := gram.Parse(c.Grammar)
	impl.Placement = c.Placement
	impl.Tokens = nil
	if c.Tokens {
		impl.Tokens = CollidingTokens
	}
	impl.BurnTo(c.Prior) // reproduce the cache indexes the grammar had when the case was found
	return c, g, err
}

// eachGrammarPlaced runs eachGrammar with the file alone over the full spaces, and then again with the file as
// second file of a set (reader created after / before the file was added; file re-registered in a fresh set) over the seed corpus and the grammars
// of at most 3 nodes: what the reader and the file know about their own position must not matter.
func eachGrammarPlaced(env *explore.Env, res *explore.Result, specs []spaceSpec, seeds []Case,
	fn func(g *gram.Grammar, inputs [][]byte, fromSeed bool)) {
	defer func() { impl.Placement = 0 }()
	for pl := 0; pl <= 3; pl++ {
		impl.Placement = pl
		use := specs
		if pl > 0 {
			use = nil
			for _, s := range specs {
				if s.sp.Min <= 3 && s.sp.FixedShared == nil {
					c := *s.sp
					if c.Max > 3 {
						c.Max = 3
					}
					s2 := s
					s2.sp = &c
					use = append(use, s2)
				}
			}
		}
		before := res.Counters["states"]
		eachGrammar(env, res, use, seeds, fn)
		if pl > 0 {
			res.Add(fmt.Sprintf("states_with_file_placement_%d", pl), res.Counters["states"]-before)
		}
	}
}

func sortedKeys(m map[string]bool) []string {
	var out []string
	for k := range m {
		out = append(out, k)
	}
	sort.Strings(out)
	return out
}

func diff(a, b map[string]bool) (onlyA, onlyB []string) {
	for k := range a {
		if !b[k] {
			onlyA = append(onlyA, k)
		}
	}
	for k := range b {
		if !a[k] {
			onlyB = append(onlyB, k)
		}
	}
	sort.Strings(onlyA)
	sort.Strings(onlyB)
	return
}

func short(ss []string, n int) string {
	if len(ss) > n {
		return strings.Join(ss[:n], " ") + fmt.Sprintf(" … (+%d)", len(ss)-n)
	}
	return strings.Join(ss, " ")
}

// eachGrammar drives fn over the seed corpus (shard 0 only) and every grammar of
// the spaces that belongs to this worker's shard and survives the a<->b symmetry
// cut. It maintains the common counters.
func eachGrammar(env *explore.Env, res *explore.Result, specs []spaceSpec, seeds []Case,
	fn func(g *gram.Grammar, inputs [][]byte, fromSeed bool)) {
	if env.Shard == 0 {
		for _, c := range seeds {
			g, err := gram.Parse(c.Grammar)
			if err != nil {
				res.Notes = append(res.Notes, "bad seed: "+err.Error())
				continue
			}
			res.Add("grammars", 1)
			// the seed input and every shorter input over its alphabet
			fn(g, gram.Inputs(ab, len(c.Input)), true)
		}
	}
	for _, s := range specs {
		inputs := gram.Inputs(s.alpha, s.maxLen)
		each := s.sp.Each
		if s.tmpl != nil {
			each = s.tmpl.Each
		}
		each(func(idx int64, g *gram.Grammar) {
			if !env.Mine(idx) {
				return
			}
			if g.FirstTerminal() == 'b' && s.noSymmetryCut {
				res.Add("grammars_run_despite_symmetry_selftest", 1)
			} else if g.FirstTerminal() == 'b' {
				// a<->b symmetry: the input set is closed under the swap and every
				// combinator is equivariant, so the mirrored grammar is covered.
				res.Add("grammars_skipped_by_symmetry", 1)
				return
			}
			if s.mutualOnly {
				an := gram.Analyze(g)
				if len(g.NTs) < 2 || an.SCC[g.NTs[0].ID] != an.SCC[g.NTs[1].ID] {
					res.Add("grammars_outside_mutual_recursion_space", 1)
					return
				}
			}
			if s.finiteOnShort {
				an := gram.Analyze(g)
				if !an.Admitted() {
					res.Add("grammars_rejected_by_admission", 1)
					return
				}
				for _, w := range []string{"", "a"} {
					t := ref.Compute(g, an, []byte(w), true)
					for _, row := range t.Over {
						for _, o := range row {
							if o {
								res.Add("grammars_outside_finite_on_short_inputs_space", 1)
								return
							}
						}
					}
				}
			}
			res.Add("grammars", 1)
			fn(g, inputs, false)
		})
	}
}
