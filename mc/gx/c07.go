package gx

import (
	"encoding/json"
	"fmt"
	"strconv"
	"strings"

	"github.com/opsidian/parsley/ast"
	"github.com/opsidian/parsley/combinator"
	"github.com/opsidian/parsley/data"
	"github.com/opsidian/parsley/parser"
	"github.com/opsidian/parsley/parsley"

	"verif/mc/explore"
	"verif/mc/gram"
	"verif/mc/impl"
)

// C07 — a returned result is never modified afterwards. Snapshot monitor: every
// object (node or alternative list) a wrapped parser returns is rendered deeply
// at return time; at every later observation point the live object must render
// the same. Fast mode checks at cache hits, at re-returns of a known object and
// at the end of the parse; when something changed the case is re-run in blame
// mode, which checks after EVERY wrapper return and names the parser during
// whose execution the change first became visible and the field that changed.

var (
	fullMemoTrim = func() gram.Alphabet {
		a := gram.Full.With("full+memo+trim", gram.Memo, gram.LTrim, gram.RTrim)
		a.TrimModes = []int{0, 1}
		return a
	}()
	abSpace = []byte{'a', 'b', ' '}
)

// consumers: a memoized shared parser S0 that returns a LIST of alternatives (3 or 5: lengths at
// which Go's append leaves spare capacity) and roots built only from the combinators that consume
// such a list (Any, Optional, SeqOf). Several consumers at one position, each appending something
// different, is the history in which sharing of the cached list's backing array becomes visible.
var consumers = gram.Alphabet{Name: "consumers", Terminals: []byte{'a', 'b'}, Unary: []gram.Kind{gram.Opt, gram.Single}, Binary: []gram.Kind{gram.Any, gram.Seq}, Ternary: []gram.Kind{gram.Any}}

func mustExpr(s string) *gram.Expr {
	g, err := gram.Parse("N0=" + s)
	if err != nil {
		panic(err)
	}
	return g.NTs[0]
}

func consumerSpaces(maxRoot int) []spaceSpec {
	var out []spaceSpec
	for _, body := range []string{"(any a a a)", "(any a (seq a a) (seq a a a))", "(any a a a a a)", "(any (seq a) (seq a b) a)", "(opt a)"} {
		out = append(out, spaceSpec{sp: &gram.Space{Name: "consumers of S0!=" + body, Alpha: consumers, HasRoot: true, Min: 2, Max: maxRoot,
			FixedShared: []*gram.Expr{mustExpr(body)}, FixedSharedMemo: []bool{true}}, maxLen: 3, alpha: []byte{'a', 'b'}, noSubsets: true})
	}
	return out
}

func c07Specs(tier string) []spaceSpec {
	if tier == "thorough" {
		return append(consumerSpaces(9), []spaceSpec{
			{sp: &gram.Space{Name: "root+inline-memo+trims", Alpha: fullMemoTrim, HasRoot: true, Min: 1, Max: 5}, maxLen: 3, alpha: abSpace},
			{sp: &gram.Space{Name: "root+1shared+trims", Alpha: fullMemoTrim, NSh: 1, HasRoot: true, Min: 2, Max: 5}, maxLen: 3, alpha: abSpace},
			{sp: &gram.Space{Name: "root+2shared", Alpha: gram.Full, NSh: 2, HasRoot: true, Min: 3, Max: 6}, maxLen: 3, alpha: ab},
			{sp: &gram.Space{Name: "full-1nt", Alpha: gram.Full, NNT: 1, Min: 1, Max: 5}, maxLen: 4, alpha: ab},
			{sp: &gram.Space{Name: "core-1nt", Alpha: gram.Core, NNT: 1, Min: 6, Max: 7}, maxLen: 3, alpha: ab},
			{sp: &gram.Space{Name: "full-2nt", Alpha: gram.Full, NNT: 2, Min: 2, Max: 5}, maxLen: 3, alpha: ab},
		}...)
	}
	return append(consumerSpaces(7), []spaceSpec{
		{sp: &gram.Space{Name: "root+inline-memo+trims", Alpha: fullMemoTrim, HasRoot: true, Min: 1, Max: 4}, maxLen: 3, alpha: abSpace},
		{sp: &gram.Space{Name: "root+1shared+trims", Alpha: fullMemoTrim, NSh: 1, HasRoot: true, Min: 2, Max: 4}, maxLen: 3, alpha: abSpace},
		{sp: &gram.Space{Name: "root+2shared", Alpha: gram.Full, NSh: 2, HasRoot: true, Min: 3, Max: 5}, maxLen: 3, alpha: ab},
		{sp: &gram.Space{Name: "full-1nt", Alpha: gram.Full, NNT: 1, Min: 1, Max: 4}, maxLen: 4, alpha: ab},
		{sp: &gram.Space{Name: "core-1nt", Alpha: gram.Core, NNT: 1, Min: 5, Max: 6}, maxLen: 3, alpha: ab},
		{sp: &gram.Space{Name: "rep-1nt", Alpha: gram.Rep, NNT: 1, Min: 5, Max: 6}, maxLen: 3, alpha: ab},
	}...)
}

var c07Seeds = append([]Case{
	{Grammar: "S0!=(any a (seq a b) (seq a b b)); root=(seq (any S0 b) (any S0 a))", Input: "abb", Note: "Any(m,X) then Any(m,Y) on a three-alternative memoized m (C07 statement)"},
	{Grammar: "S0!=a; root=(any (seq (rtrim1 S0) b) (seq S0 _ b))", Input: "a b", Note: "trimmed and untrimmed use of one cached node (known finding G)"},
	{Grammar: "S0!=(any a (seq a a)); root=(seq (opt S0) (opt S0) (opt S0))", Input: "aaa", Note: "Optional appending to a cached list"},
}, seedCorpus...)

// snapshot of one returned object
type snap struct {
	live       parsley.Node
	full       string // deep rendering
	noEnd      string // rendering without end positions (to classify an end-position-only change)
	returnedBy map[int]bool
	firstBy    *gram.Expr
	firstPos   int
	tree       *snapNode // structural copy, blame mode only
}

// snapNode is a structural copy of a returned object as it read when it was returned.
type snapNode struct {
	id     any // identity of the live object (nil for immutable values)
	list   bool
	empty  bool
	text   string // token, value and start position
	end    int
	kids   []*snapNode
	listID any
}

func copyTree(n parsley.Node) *snapNode {
	sn := &snapNode{}
	if k, ok := identity(n); ok {
		sn.id = k
	}
	switch v := n.(type) {
	case nil:
		sn.text = "nil"
	case ast.NodeList:
		sn.list = true
		for _, el := range v {
			sn.kids = append(sn.kids, copyTree(el))
		}
	case ast.EmptyNode:
		sn.empty, sn.text, sn.end = true, fmt.Sprintf("e@%d", int(v.Pos())), int(v.ReaderPos())
	case parsley.NonTerminalNode:
		sn.text, sn.end = fmt.Sprintf("%s@%d", v.Token(), int(v.Pos())), int(v.ReaderPos())
		for _, k := range v.Children() {
			sn.kids = append(sn.kids, copyTree(k))
		}
	case parsley.LiteralNode:
		sn.text, sn.end = fmt.Sprintf("%s=%v@%d", v.Token(), v.Value(), int(v.Pos())), int(v.ReaderPos())
	default:
		sn.text, sn.end = fmt.Sprintf("%s@%d", n.Token(), int(n.Pos())), int(n.ReaderPos())
	}
	return sn
}

// sameExceptEndsOf: does live read like the copy sn apart from the END positions of the objects in top (and the
// position of empty-match values stored directly in a list of top, which are replaced, not moved)? This is the exact
// shape of the recorded finding "RightTrim moves the end of the node(s) its operand returned"; a difference anywhere
// else — in a child of such a node, say — is a different violation.
func sameExceptEndsOf(sn *snapNode, live parsley.Node, top map[any]bool, inTopList bool) bool {
	lk, hasID := identity(live)
	isTop := hasID && top[lk]
	switch v := live.(type) {
	case ast.NodeList:
		if !sn.list || len(v) != len(sn.kids) {
			return false
		}
		for i, el := range v {
			if !sameExceptEndsOf(sn.kids[i], el, top, isTop) {
				return false
			}
		}
		return true
	case ast.EmptyNode:
		return sn.empty && (inTopList || (sn.text == fmt.Sprintf("e@%d", int(v.Pos())) && sn.end == int(v.ReaderPos())))
	}
	if sn.list || sn.empty {
		return false
	}
	cur := copyTree(live)
	if cur.text != sn.text || len(cur.kids) != len(sn.kids) {
		return false
	}
	if cur.end != sn.end && !isTop {
		return false
	}
	if nt, ok := live.(parsley.NonTerminalNode); ok {
		for i, k := range nt.Children() {
			if !sameExceptEndsOf(sn.kids[i], k, top, false) {
				return false
			}
		}
	}
	return true
}

type listKey struct {
	p *parsley.Node
	n int
}

func identity(n parsley.Node) (any, bool) {
	switch v := n.(type) {
	case nil:
		return nil, false
	case ast.EmptyNode, parser.EndNode:
		return nil, false // immutable values
	case ast.NodeList:
		if len(v) == 0 {
			return nil, false
		}
		return listKey{&v[0], len(v)}, true
	}
	return n, true
}

// renderNoEnd renders without reader positions (and without the position of empty nodes, which is their end).
func renderNoEnd(sb *strings.Builder, n parsley.Node) {
	switch v := n.(type) {
	case nil:
		sb.WriteString("nil")
	case ast.NodeList:
		sb.WriteString("LIST[")
		for i, k := range v {
			if i > 0 {
				sb.WriteByte(' ')
			}
			renderNoEnd(sb, k)
		}
		sb.WriteByte(']')
	case ast.EmptyNode:
		sb.WriteString("e")
	case parser.EndNode:
		sb.WriteString("EOF")
	case parsley.NonTerminalNode:
		fmt.Fprintf(sb, "%s@%d(", v.Token(), int(v.Pos()))
		for i, k := range v.Children() {
			if i > 0 {
				sb.WriteByte(' ')
			}
			renderNoEnd(sb, k)
		}
		sb.WriteByte(')')
	case parsley.LiteralNode:
		fmt.Fprintf(sb, "%s=%v@%d", v.Token(), v.Value(), int(v.Pos()))
	default:
		fmt.Fprintf(sb, "%s@%d", n.Token(), int(n.Pos()))
	}
}

type frame struct {
	e            *gram.Expr
	childReturns []parsley.Node
}

type c07Monitor struct {
	snaps   []*snap
	index   map[any]int
	blame   bool
	stack   []*frame
	found   *c07Finding
	foundAt *frame
	checks  int64
	rehits  int64
	// memoAnswers (enabled for grammars without left recursion and without RightTrim, where nothing may differ between
	// two requests): what each memoized parser answered at each position of the current parse
	memoIDs     map[int]bool
	memoAnswers map[[2]int]string
}

type c07Finding struct {
	mutator  *gram.Expr // nil when only seen at the end of the parse (fast mode)
	field    string
	relation string
	object   *snap
	now      string
}

func (m *c07Monitor) reset(blame bool) {
	m.snaps = m.snaps[:0]
	m.index = map[any]int{}
	m.blame = blame
	m.stack = m.stack[:0]
	m.found, m.foundAt = nil, nil
	if m.memoIDs != nil {
		m.memoAnswers = map[[2]int]string{}
	}
}

func renderFull(n parsley.Node) string { return impl.Render(n, 1) }

func (m *c07Monitor) checkOne(s *snap, at *frame) bool {
	m.checks++
	now := renderFull(s.live)
	if now == s.full {
		return true
	}
	if m.found != nil && (m.foundAt != at || at == nil || m.found.relation != "operand-result") {
		return false
	}
	// (a finding of the recorded shape made at this same observation point may still be replaced by one that is not)
	var sb strings.Builder
	renderNoEnd(&sb, s.live)
	field := "content"
	if sb.String() == s.noEnd {
		field = "readerPos"
	}
	f := &c07Finding{field: field, object: s, now: now, relation: "other"}
	if at != nil {
		f.mutator = at.e
		for _, cr := range at.childReturns {
			if reachable(cr, s.live) || m.changedWithin(cr) {
				// the changed object is what the mutator's own operand returned, an element of it, or (a list
				// from further inside that) shares a node with it which now reads differently
				f.relation = "operand-result"
			}
		}
		if f.relation == "operand-result" && s.tree != nil {
			top := map[any]bool{}
			for _, cr := range at.childReturns {
				if k, ok := identity(cr); ok {
					top[k] = true
				}
				if l, isList := cr.(ast.NodeList); isList {
					for _, el := range l {
						if k, ok := identity(el); ok {
							top[k] = true
						}
					}
				}
			}
			if !sameExceptEndsOf(s.tree, s.live, top, false) {
				// more than the ends of the operand's own result nodes changed: something BELOW them was rewritten
				f.relation = "below-operand-result"
			}
		}
	}
	if m.found != nil && f.relation == "operand-result" {
		return true // nothing worse than what is already recorded for this observation point: keep scanning
	}
	m.found, m.foundAt = f, at
	return f.relation == "operand-result" // of the recorded shape: keep scanning this observation point for something else
}

// changedWithin: does the value root, or one of the elements of the list root, now read differently from its snapshot?
func (m *c07Monitor) changedWithin(root parsley.Node) bool {
	differs := func(n parsley.Node) bool {
		k, ok := identity(n)
		if !ok {
			return false
		}
		i, seen := m.index[k]
		return seen && renderFull(m.snaps[i].live) != m.snaps[i].full
	}
	if differs(root) {
		return true
	}
	if l, isList := root.(ast.NodeList); isList {
		for _, el := range l {
			if differs(el) {
				return true
			}
		}
	}
	return false
}

// reachable: is obj the value root itself or an element of the list root?
func reachable(root, obj parsley.Node) bool {
	ko, ok := identity(obj)
	if !ok {
		return false
	}
	if kr, ok := identity(root); ok && kr == ko {
		return true
	}
	if l, isList := root.(ast.NodeList); isList {
		for _, el := range l {
			if ke, ok := identity(el); ok && ke == ko {
				return true
			}
		}
	}
	return false
}

func (m *c07Monitor) checkAll(at *frame) {
	for _, s := range m.snaps {
		if !m.checkOne(s, at) {
			return
		}
	}
}

func (m *c07Monitor) onEnter(e *gram.Expr, _ parsley.Pos) {
	if m.blame {
		// a change visible here was made by the code of the parser that is about to call e (between two of its operand calls)
		if len(m.stack) > 0 {
			m.checkAll(m.stack[len(m.stack)-1])
		}
		m.stack = append(m.stack, &frame{e: e})
	}
}

func (m *c07Monitor) onReturn(e *gram.Expr, pos parsley.Pos, node parsley.Node, _ data.IntSet, perr parsley.Error) {
	if m.memoIDs[e.ID] && m.found == nil {
		// "asking a memoized parser again at the same position gives the same answer"
		ans := renderFull(node)
		if perr != nil {
			ans += " with error " + strconv.Quote(perr.Error())
		}
		k := [2]int{e.ID, int(pos)}
		if prev, asked := m.memoAnswers[k]; !asked {
			m.memoAnswers[k] = ans
		} else if prev != ans {
			m.found = &c07Finding{mutator: e, field: "answer", relation: "memoized-parser-asked-again", now: ans,
				object: &snap{full: prev, firstBy: e, firstPos: int(pos) - 1}}
		}
	}
	var fr *frame
	if m.blame {
		fr = m.stack[len(m.stack)-1]
		m.stack = m.stack[:len(m.stack)-1]
		// everything returned so far must still read as it did — checked BEFORE the new value is recorded
		m.checkAll(fr)
		if len(m.stack) > 0 {
			parent := m.stack[len(m.stack)-1]
			parent.childReturns = append(parent.childReturns, node)
		}
	}
	m.record(e, int(pos)-1, node, fr)
	if l, ok := node.(ast.NodeList); ok {
		for _, el := range l {
			m.record(e, int(pos)-1, el, fr)
		}
	}
}

func (m *c07Monitor) record(e *gram.Expr, pos int, node parsley.Node, fr *frame) {
	k, ok := identity(node)
	if !ok {
		return
	}
	if i, seen := m.index[k]; seen {
		// the same object is handed out again (cache hit, pass-through): it must read as at its first return
		m.rehits++
		s := m.snaps[i]
		m.checkOne(s, fr)
		s.returnedBy[e.ID] = true
		return
	}
	var sb strings.Builder
	renderNoEnd(&sb, node)
	m.index[k] = len(m.snaps)
	sn := &snap{live: node, full: renderFull(node), noEnd: sb.String(), returnedBy: map[int]bool{e.ID: true}, firstBy: e, firstPos: pos}
	if m.blame {
		sn.tree = copyTree(node)
	}
	m.snaps = append(m.snaps, sn)
}

func c07Grammar(res *explore.Result, g *gram.Grammar, inputs [][]byte, subsets, verbose bool) {
	an := gram.Analyze(g)
	if !an.RepsConsume {
		res.Add("grammars_rejected_nullable_repetition", 1)
		return
	}
	nsh := len(g.Shared)
	masks := []int{-1}
	if subsets && nsh > 0 {
		masks = masks[:0]
		for m := 0; m < 1<<uint(nsh); m++ {
			masks = append(masks, m)
		}
	}
	for _, mask := range masks {
		gm := g
		if mask >= 0 {
			gm, _ = gram.Parse(g.String())
			for i := 0; i < nsh; i++ {
				gm.SharedMemo[i] = mask&(1<<uint(i)) != 0
			}
		}
		if !gram.Analyze(gm).CyclesMemoized() {
			res.Add("builds_rejected_unmemoized_cycle", 1)
			continue
		}
		res.Add("builds", 1)
		c07Build(res, gm, inputs, verbose)
	}
}

func c07Build(res *explore.Result, g *gram.Grammar, inputs [][]byte, verbose bool) {
	gs := g.String()
	b := impl.Build(g, impl.Options{})
	b.Mon.BudgetCalls, b.Mon.BudgetRes = 20000, 20000
	mon := &c07Monitor{}
	if an := gram.Analyze(g); an.LeftRecFree {
		ids := map[int]bool{}
		rtrim := false
		for _, e := range g.Nodes() {
			rtrim = rtrim || e.K == gram.RTrim
			if e.K == gram.Memo || (e.K == gram.Sh && e.Ref < len(g.SharedMemo) && g.SharedMemo[e.Ref]) {
				ids[e.ID] = true
			}
		}
		if !rtrim && len(ids) > 0 {
			mon.memoIDs = ids
		}
	}
	b.Mon.OnEnter = mon.onEnter
	b.Mon.OnReturn = mon.onReturn
	explosiveFrom := -1
	reported := map[string]bool{}
	// the same grammar object is used for every input: results of EARLIER parses must not change either
	sentence := combinator.Sentence(b.Root)
	sentenceExpr := &gram.Expr{K: gram.Seq, ID: 1 << 20, Kids: []*gram.Expr{g.Body(rootExpr(g)), {K: gram.End}}}
	var earlier []*snap
	var history []string
	keepEarlier := func() {
		for _, sn := range mon.snaps {
			sn.full = renderFull(sn.live) // as it reads at the end of its own parse
		}
		earlier = append(earlier, mon.snaps...)
		if len(earlier) > 400 {
			earlier = earlier[len(earlier)-400:]
		}
		mon.snaps = nil
	}
	for _, w := range inputs {
		if explosiveFrom >= 0 && len(w) >= explosiveFrom {
			res.Add("cases_skipped_after_meter_tripped", 1)
			continue
		}
		c := Case{Prior: b.MemoBefore, Grammar: gs, Input: string(w), History: append([]string{}, history...)}
		history = append(history, string(w))
		run := func(blame bool) (impl.Outcome, *c07Finding) {
			ctx, r, _ := impl.NewContext(w)
			b.Mon.Reset()
			mon.reset(blame)
			o := b.Run(ctx, b.Root, r.Pos(0))
			if o.Panic == "" && o.Depth == "" && o.Budget == "" {
				mon.checkAll(nil) // end of parse: every returned object reads as at return time
				if !blame && mon.found == nil {
					// once more under Sentence (an EOF-terminated sequence around the root); its result is recorded too
					ctx2, r2, _ := impl.NewContext(w)
					o2 := b.Run(ctx2, sentence, r2.Pos(0))
					if o2.Panic == "" && o2.Depth == "" && o2.Budget == "" {
						mon.record(sentenceExpr, 0, o2.Node, nil)
						mon.checkAll(nil)
					}
				}
			}
			return o, mon.found
		}
		o, f := run(false)
		if f == nil && o.Budget == "" && o.Panic == "" && o.Depth == "" {
			// results of earlier parses with this grammar object
			for _, sn := range earlier {
				if now := renderFull(sn.live); now != sn.full {
					key := "mutator=later-parse;field=content;object=result-of-an-earlier-parse"
					what := fmt.Sprintf("%s: a result of an EARLIER parse with the same grammar object (%s, returned by %s) reads %s after this parse", c, sn.full, sn.firstBy, now)
					if !reported[key] || verbose {
						reported[key] = true
						res.Violate(key, what, c)
					}
					sn.full = now
					break
				}
			}
		}
		res.Add("states", 1)
		res.Add("transitions", b.Mon.Calls)
		res.Add("traces", 1)
		res.Add("snapshots_taken", int64(len(mon.snaps)))
		res.Add("snapshot_rechecks", mon.checks)
		if mon.rehits > 0 && b.Mon.Hits > 0 {
			res.Add("nontrivial", 1)
		}
		mon.checks, mon.rehits = 0, 0
		switch {
		case o.Budget != "":
			if explosiveFrom < 0 {
				explosiveFrom = len(w) + 1
			}
			res.Undecided("work meter (20000) tripped on explosively ambiguous grammars; longer inputs of such a grammar are skipped and counted")
			continue
		case o.Panic != "":
			res.Violate("panic", fmt.Sprintf("%s: library panic: %s", c, o.Panic), c)
			continue
		case o.Depth != "":
			res.Violate("unbounded-reentry", fmt.Sprintf("%s: %s", c, o.Depth), c)
			continue
		}
		if f == nil {
			if verbose {
				res.Notes = append(res.Notes, fmt.Sprintf("%d object(s) snapshotted, all unchanged at the end of the parse", len(mon.snaps)))
			}
			keepEarlier()
			continue
		}
		// something changed: blame mode names the mutator
		_, fb := run(true)
		if fb == nil {
			fb = f // not reproduced in blame mode (should not happen): report what fast mode saw
		}
		mut := "?"
		if fb.mutator != nil {
			mut = fb.mutator.K.String()
		}
		key := fmt.Sprintf("mutator=%s;field=%s;object=%s", mut, fb.field, fb.relation)
		what := fmt.Sprintf("%s: the result %s returned by %s at %d later reads %s (changed field: %s; first visible when %s returned)",
			c, fb.object.full, fb.object.firstBy, fb.object.firstPos, fb.now, fb.field, exprOrEnd(fb.mutator))
		if !reported[key] || verbose {
			reported[key] = true
			res.Violate(key, what, c)
		} else {
			res.Add("further_cases_same_key_same_grammar", 1)
		}
	}
}

func rootExpr(g *gram.Grammar) *gram.Expr {
	if g.Root != nil {
		return g.Root
	}
	return g.NTs[0]
}

func exprOrEnd(e *gram.Expr) string {
	if e == nil {
		return "the parse ended"
	}
	return e.String()
}

func c07Run(env *explore.Env) *explore.Result {
	res := explore.NewResult()
	if env.Shard == 0 {
		for _, c := range c07Seeds {
			g, err := gram.Parse(c.Grammar)
			if err != nil {
				res.Notes = append(res.Notes, "bad seed: "+err.Error())
				continue
			}
			res.Add("grammars", 1)
			alpha := ab
			if strings.Contains(c.Input, " ") {
				alpha = abSpace
			}
			c07Grammar(res, g, gram.Inputs(alpha, len(c.Input)), false, false)
		}
	}
	for _, s := range c07Specs(env.Tier) {
		inputs := gram.Inputs(s.alpha, s.maxLen)
		s.sp.Each(func(idx int64, g *gram.Grammar) {
			if !env.Mine(idx) {
				return
			}
			if g.FirstTerminal() == 'b' {
				res.Add("grammars_skipped_by_symmetry", 1)
				return
			}
			res.Add("grammars", 1)
			c07Grammar(res, g, inputs, !s.noSubsets, false)
		})
	}
	return res
}

func c07Replay(raw json.RawMessage) *explore.Result {
	res := explore.NewResult()
	c, g, err := parseCase(raw)
	if err != nil {
		res.Notes = append(res.Notes, "bad case: "+err.Error())
		return res
	}
	res.Notes = append(res.Notes, "case: "+c.String())
	var inputs [][]byte
	for _, h := range c.History {
		inputs = append(inputs, []byte(h))
	}
	c07Grammar(res, g, append(inputs, []byte(c.Input)), false, true)
	return res
}

func init() {
	explore.Register(&explore.Check{
		ID:    "C07",
		Level: "model_checking",
		Rule: "every terminating grammar of the stated spaces (full alphabet, shared sub-parsers plain or memoized in every subset, inline Memoize, Left/RightTrim in modes none/spaces, and the memoized left-recursive spaces) x every input; " +
			"snapshot monitor: each object a wrapped parser returns is rendered deeply at return time and re-rendered when it is handed out again and at the end of the parse (blame mode: after every wrapper return); " +
			"transition = one parser call; non-trivial = a case in which a previously returned object was handed out again by a cache hit (the history in which corruption becomes observable)",
		Assume: []string{"objects are observed through the Node interface (Token, Value, Pos, ReaderPos, Children, list elements); transformation and static checking stay disabled (post-parse passes, C13)"},
		Run:    c07Run,
		Replay: c07Replay,
		Bounds: func(tier string) map[string]any { return boundsOf(c07Specs(tier), c07Seeds) },
	})
}
