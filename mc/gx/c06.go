package gx

import (
	"encoding/json"
	"fmt"
	"regexp"
	"strconv"
	"strings"

	"github.com/opsidian/parsley/combinator"
	"github.com/opsidian/parsley/data"
	"github.com/opsidian/parsley/parser"
	"github.com/opsidian/parsley/parsley"

	"verif/mc/explore"
	"verif/mc/gram"
	"verif/mc/impl"
)

// C06 — parse errors point at the furthest failure and render a real
// line:column. Every terminating grammar x {unnamed, all named} under
// Sentence(N0) x every input the parse rejects. The terminal 'b' is built as
// '\n' so that line and column are both exercised.
//
// Oracle, taken literally from the statement: F = the furthest position at which
// a terminal or end-of-input was TRIED (observed by wrappers around every
// terminal, and from the end positions of the root's alternatives for the End
// parser inside Sentence) and did not match. Reported position p <= F; p == F when
// every Any/Choice is named; the text is 'failed to parse the input:
// <expectation> at f:<line>:<col>' with line/col computed independently from p;
// the expectation names a terminal / end of input / named alternative that was
// really tried at p and produced no result there.

// c06Specs: C04's spaces without SuppressError/Single (a grammar that suppresses its errors on purpose cannot be
// held to "the expectation is one that really failed there").
// fullEnd: the full alphabet plus parser.End() as a leaf (its error is the one non-NotFound error of these grammars)
var fullEnd = func() gram.Alphabet { a := gram.Full; a.Name = "full+end"; a.End = true; return a }()

func c06Specs(tier string) []spaceSpec {
	max := 5
	if tier == "thorough" {
		max = 6
	}
	out := []spaceSpec{{sp: &gram.Space{Name: "full+end-1nt", Alpha: fullEnd, NNT: 1, Min: 2, Max: max}, maxLen: 3, alpha: ab}}
	for _, s := range c04Specs(tier) {
		if s.sp.Alpha.Name != fullAll.Name && s.sp.Alpha.Name != fullTrimEnd.Name { // trims have errors of their own (C10)
			out = append(out, s)
		}
	}
	return out
}

var nlMap = map[byte]byte{'b': '\n'}

// percent variant: terminal a is built as '%' and the file is called "100%f.txt": what is reported is text, never a
// format string
var percentMap = map[byte]byte{'a': '%', 'b': '\n'}

const percentFile = "100%f.txt"

// c06Percent selects the percent variant (set around a pass of c06Run and by the replay).
var c06Percent = false

func c06Letters() map[byte]byte {
	if c06Percent {
		return percentMap
	}
	return nlMap
}

func mapInput(w []byte) []byte {
	out := make([]byte, len(w))
	for i, c := range w {
		if m, ok := c06Letters()[c]; ok {
			c = m
		}
		out[i] = c
	}
	return out
}

type attempt struct {
	what string // quoted terminal, "the end of input", or alt<ID>
	pos  int
}

var c06Re = regexp.MustCompile(`(?s)^failed to parse the input: (.*) at f:(\d+):(\d+)$`)
var c06RePercent = regexp.MustCompile(`(?s)^failed to parse the input: (.*) at ` + regexp.QuoteMeta(percentFile) + `:(\d+):(\d+)$`)

func lineCol(w []byte, p int) (int, int) {
	line, last := 1, -1
	for i := 0; i < p && i < len(w); i++ {
		if w[i] == '\n' {
			line++
			last = i
		}
	}
	return line, p - last
}

func c06Grammar(res *explore.Result, g *gram.Grammar, inputs [][]byte, verbose bool) {
	an := gram.Analyze(g)
	if !an.RepsConsume {
		res.Add("grammars_rejected_nullable_repetition", 1)
		return
	}
	res.Add("grammars_explored", 1)
	for variant := 0; variant < 3; variant++ {
		named := variant > 0
		gv := withNamed(g, named)
		gv.NamedSeq = variant == 2 // third variant: the sequence-family combinators carry a Name as well
		gs := gv.String()
		b := impl.Build(gv, impl.Options{Letters: c06Letters()})
		b.Mon.BudgetCalls, b.Mon.BudgetRes = budgetCalls, budgetResults
		failed := map[attempt]bool{} // tried and produced no result
		b.Mon.OnReturn = func(e *gram.Expr, pos parsley.Pos, node parsley.Node, _ data.IntSet, _ parsley.Error) {
			if node != nil {
				return
			}
			switch e.K {
			case gram.T:
				ch := e.Ch
				if m, ok := c06Letters()[ch]; ok {
					ch = m
				}
				failed[attempt{strconv.Quote(string(rune(ch))), int(pos) - impl.Base}] = true
			case gram.End:
				failed[attempt{"the end of input", int(pos) - impl.Base}] = true
			case gram.Any, gram.Choice:
				if gv.Named {
					failed[attempt{"alt" + strconv.Itoa(e.ID), int(pos) - impl.Base}] = true
				}
			case gram.Seq, gram.SeqTry, gram.SeqFOA, gram.Many, gram.Many1, gram.SepBy, gram.SepBy1:
				if gv.NamedSeq {
					failed[attempt{"alt" + strconv.Itoa(e.ID), int(pos) - impl.Base}] = true
				}
			}
		}
		// the parser handed to Sentence: records where End will be tried
		var rootEnds []int
		rootP := parser.Func(func(ctx *parsley.Context, l data.IntMap, pos parsley.Pos) (parsley.Node, data.IntSet, parsley.Error) {
			node, cp, err := b.NT[0].Parse(ctx, l, pos)
			for _, a := range impl.Alternatives(node) {
				rootEnds = append(rootEnds, int(a.ReaderPos())-impl.Base)
			}
			return node, cp, err
		})
		root := combinator.Sentence(rootP)
		explosiveFrom := -1
		var history []string
		for _, w0 := range inputs {
			if explosiveFrom >= 0 && len(w0) >= explosiveFrom {
				res.Add("cases_skipped_after_meter_tripped", 1)
				continue
			}
			w := mapInput(w0)
			n := len(w)
			c := Case{Placement: impl.Placement, Prior: b.MemoBefore, Grammar: gs, Input: string(w0), History: append([]string{}, history...), Percent: c06Percent}
			history = append(history, string(w0))
			for k := range failed {
				delete(failed, k)
			}
			rootEnds = rootEnds[:0]
			var node parsley.Node
			var perr error
			ctx, _, file := impl.NewContext(w)
			// a lookup at the END of the file first: the rendering of the error is then a lookup that goes backwards
			_ = file.Position(len(w))
			b.Mon.Reset()
			gd := b.Guard(func() { node, perr = parsley.Parse(ctx, root) })
			res.Add("states", 1)
			res.Add("transitions", b.Mon.Calls)
			if gd.Budget != "" {
				if explosiveFrom < 0 {
					explosiveFrom = n + 1
				}
				res.Undecided(fmt.Sprintf("work meter (%d) tripped on explosively ambiguous grammars; longer inputs of such a grammar are skipped and counted", budgetCalls))
				continue
			}
			if gd.Panic != "" || gd.Depth != "" || (node == nil && perr == nil) {
				// totality is C04's subject; it is reported there. Counted here so it is visible.
				res.Add("cases_not_judged_totality_failure", 1)
				continue
			}
			if perr == nil {
				res.Add("cases_accepted_not_in_scope", 1)
				continue
			}
			res.Add("traces", 1)
			mode := "unnamed"
			if named {
				mode = "named"
			}
			if gv.NamedSeq {
				mode = "named+sequences"
			}
			where := fmt.Sprintf("%s on %q [%s]", gs, string(w), mode)
			for _, e := range rootEnds {
				if e < n {
					failed[attempt{"the end of input", e}] = true
				}
			}
			F := -1
			for a := range failed {
				if !strings.HasPrefix(a.what, "alt") && a.pos > F {
					F = a.pos
				}
			}
			viol := func(key, what string) { res.Violate(key+"/"+mode, where+": "+what, c) }
			text := perr.Error()
			{
				// the same context asked again (its result cache answers now): the report must be the same
				var perr2 error
				saveFailed, saveEnds := failed, rootEnds
				failed, rootEnds = map[attempt]bool{}, nil
				g2 := b.Guard(func() { _, perr2 = parsley.Parse(ctx, root) })
				failed, rootEnds = saveFailed, saveEnds
				if g2.Panic == "" && g2.Budget == "" && g2.Depth == "" && (perr2 == nil || perr2.Error() != text) {
					viol("second-parse-on-same-context-differs", fmt.Sprintf("first Parse: %q, second Parse on the same context: %v", text, perr2))
					continue
				}
			}
			re := c06Re
			if c06Percent {
				re = c06RePercent
			}
			m := re.FindStringSubmatch(text)
			if m == nil {
				viol("error-form", fmt.Sprintf("error text %q is not 'failed to parse the input: <expectation> at f:<line>:<col>'", text))
				continue
			}
			// The reported position is visible only through the rendered line:column (the file set
			// formats it into the text); invert it with an independent line/column computation.
			line, _ := strconv.Atoi(m[2])
			col, _ := strconv.Atoi(m[3])
			p := -1
			for q := 0; q <= n; q++ {
				if l, cc := lineCol(w, q); l == line && cc == col {
					p = q
				}
			}
			if p < 0 || p > n {
				viol("position-out-of-range", fmt.Sprintf("error %q: line %d column %d is not a position of the input <0,%d>", text, line, col, n))
				continue
			}
			exp := m[1]
			if F < 0 {
				// no terminal and no end-of-input was ever tried: only the form and p == start are required
				res.Add("cases_without_any_terminal_attempt", 1)
				if p != 0 {
					viol("position-without-attempts", fmt.Sprintf("no terminal was tried, error %q is at %d, expected the start", text, p))
				}
				continue
			}
			res.Add("nontrivial", 1)
			res.Outcome(fmt.Sprintf("%s:F-p=%d", mode, F-p))
			if p > F {
				viol("beyond-furthest-failure", fmt.Sprintf("error %q is at %d, beyond the furthest failed attempt at %d", text, p, F))
			} else if named && p != F {
				viol("not-at-furthest-failure", fmt.Sprintf("every Any/Choice is named, error %q is at %d but the furthest failed attempt is at %d (%s)", text, p, F, describeFailed(failed, F)))
			}
			// expectation must be one that really failed at p
			what := strings.TrimPrefix(exp, "was expecting ")
			// ... judged against the bytes the file was CREATED from, not against what the reader happens to see now
			if len(what) >= 3 && what[0] == '"' {
				if lit, uerr := strconv.Unquote(what); uerr == nil && len(lit) == 1 && p < n && w[p] == lit[0] {
					viol("expectation-did-not-fail-there", fmt.Sprintf("error %q: the input the file was created from HAS %s at %d", text, what, p))
					continue
				}
			} else if what == "the end of input" && p >= n {
				viol("expectation-did-not-fail-there", fmt.Sprintf("error %q: the input the file was created from ends at %d", text, p))
				continue
			}
			if what == exp || !failed[attempt{what, p}] {
				viol("expectation-did-not-fail-there", fmt.Sprintf("error %q: nothing called %q was tried at %d and failed there (failed at %d: %s)", text, what, p, p, describeFailed(failed, p)))
			}
			if verbose {
				res.Notes = append(res.Notes, fmt.Sprintf("[%s] error %q p=%d F=%d failed-at-F: %s", mode, text, p, F, describeFailed(failed, F)))
			}
			if res.Counters["traces"]%10000 == 1 {
				res.Sample(fmt.Sprintf("%s -> %q (p=%d, furthest failed attempt F=%d)", where, text, p, F))
			}
		}
	}
}

func describeFailed(failed map[attempt]bool, pos int) string {
	m := map[string]bool{}
	for a := range failed {
		if a.pos == pos {
			m[a.what] = true
		}
	}
	return strings.Join(sortedKeys(m), ", ")
}

// wordAlternatives: S -> E1 E2 where each element is a small choice between WORDS over {a,b} (sequences of
// terminals): any(w,w'), choice(w,w'), opt(w), many(w), and for E1 also choice(opt(w),w'), any(opt(w),w'). Ambiguous
// heads with tails that fail at different depths are what make "the furthest failure" depend on the order in which
// a sequence explores alternatives and on errors that come back TOGETHER with a result (Optional); a grammar of this
// kind has 8..14 nodes, beyond the size-bounded spaces.
func wordAlternatives(tier string) []string {
	word := func(w string) string {
		if len(w) == 1 {
			return w
		}
		return "(seq " + strings.Join(strings.Split(w, ""), " ") + ")"
	}
	words := func(maxLen int) []string {
		var out []string
		for _, w := range gram.Inputs(ab, maxLen) {
			if len(w) > 0 {
				out = append(out, word(string(w)))
			}
		}
		return out
	}
	l1, l2 := 2, 3
	if tier == "thorough" {
		l1 = 3
	}
	elements := func(ws []string, first bool) []string {
		var out []string
		for _, w := range ws {
			out = append(out, "(opt "+w+")", "(many "+w+")")
			for _, v := range ws {
				out = append(out, "(any "+w+" "+v+")", "(choice "+w+" "+v+")")
				if first {
					out = append(out, "(choice (opt "+w+") "+v+")", "(any (opt "+w+") "+v+")")
				}
			}
		}
		return out
	}
	var out []string
	for _, e1 := range elements(words(l1), true) {
		for _, e2 := range elements(words(l2), false) {
			out = append(out, "N0=(seq "+e1+" "+e2+")")
		}
	}
	return out
}

func c06Run(env *explore.Env) *explore.Result {
	res := explore.NewResult()
	inputs4 := gram.Inputs(ab, 4)
	for i, src := range wordAlternatives(env.Tier) {
		if !env.Mine(int64(i)) {
			continue
		}
		g, err := gram.Parse(src)
		if err != nil {
			res.Notes = append(res.Notes, "bad word-alternatives grammar: "+err.Error())
			continue
		}
		if g.FirstTerminal() == 'b' {
			res.Add("grammars_skipped_by_symmetry", 1)
			continue
		}
		res.Add("grammars", 1)
		res.Add("word_alternative_grammars", 1)
		c06Grammar(res, g, inputs4, false)
	}
	eachGrammarPlaced(env, res, c06Specs(env.Tier), c04Seeds, func(g *gram.Grammar, inputs [][]byte, _ bool) {
		c06Grammar(res, g, inputs, false)
	})
	// the seed corpus and the grammars of at most 4 nodes again with a '%' as terminal a and in the file name
	c06Percent, impl.FileName = true, percentFile
	defer func() { c06Percent, impl.FileName = false, "f" }()
	var small []spaceSpec
	for _, s := range c06Specs(env.Tier) {
		if s.tmpl == nil && s.sp.FixedShared == nil && s.sp.Min <= 4 && s.sp.NNT <= 1 {
			c := *s.sp
			if c.Max > 4 {
				c.Max = 4
			}
			s2 := s
			s2.sp = &c
			s2.noSymmetryCut = true // a and b are not interchangeable here
			small = append(small, s2)
		}
	}
	eachGrammar(env, res, small, c04Seeds, func(g *gram.Grammar, inputs [][]byte, _ bool) {
		res.Add("grammars_in_the_percent_variant", 1)
		c06Grammar(res, g, inputs, false)
	})
	return res
}

func c06Replay(raw json.RawMessage) *explore.Result {
	res := explore.NewResult()
	c, g, err := parseCase(raw)
	if err != nil {
		res.Notes = append(res.Notes, "bad case: "+err.Error())
		return res
	}
	res.Notes = append(res.Notes, "case: "+c.String()+" (terminal b is built as a line feed)")
	g.Named, g.NamedSeq = false, false
	if c.Percent {
		c06Percent, impl.FileName = true, percentFile
		defer func() { c06Percent, impl.FileName = false, "f" }()
	}
	var inputs [][]byte
	for _, h := range c.History {
		inputs = append(inputs, []byte(h))
	}
	c06Grammar(res, g, append(inputs, []byte(c.Input)), true)
	return res
}

func init() {
	explore.Register(&explore.Check{
		ID:    "C06",
		Level: "model_checking",
		Rule: "every grammar of the stated spaces whose repetitions consume input x {unnamed, every Any/Choice named} under Sentence(N0) x every input (terminal b built as a line feed), judged on every REJECTED input; plus the word-alternatives space S -> E1 E2 (elements any/choice/opt/many over words of <= 2 resp. 3 terminals, optional alternatives inside Choice/Any) on inputs up to 4; " +
			"F = furthest position at which a terminal or end-of-input was tried and failed (observed by wrappers); oracles: error form, independently computed line:column, p <= F, p == F when named, expectation really failed at p; " +
			"transition = one parser call; non-trivial = a rejected case in which at least one terminal/end-of-input attempt failed (so F is defined)",
		Assume: []string{"wrappers around every terminal observe all attempts; End attempts are derived from the end positions of the root's alternatives (Sentence = SeqOf(p, End))"},
		Run:    c06Run,
		Replay: c06Replay,
		Bounds: func(tier string) map[string]any { return boundsOf(c06Specs(tier), c04Seeds) },
	})
}
