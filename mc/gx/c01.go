package gx

import (
	"encoding/json"
	"fmt"
	"os"

	"github.com/opsidian/parsley/parsley"

	"verif/mc/explore"
	"verif/mc/gram"
	"verif/mc/impl"
	"verif/mc/ref"
)

// C01 — parse results equal the grammar's derivations. Admitted grammars
// (stratified, consuming repetitions) x inputs x start positions x {cold, warm}
// cache, real parsers against the reference table and the independent validator.

func c01Specs(tier string) []spaceSpec {
	if os.Getenv("VERIF_SPACES") != "" {
		return specsFromEnv(nil)
	}
	if tier == "thorough" {
		return []spaceSpec{
			{sp: &gram.Space{Name: "full-1nt", Alpha: gram.Full, NNT: 1, Min: 1, Max: 4}, maxLen: 4, alpha: ab, noSymmetryCut: true}, // both halves: self-test of the symmetry cut
			{sp: &gram.Space{Name: "full-1nt", Alpha: gram.Full, NNT: 1, Min: 5, Max: 5}, maxLen: 4, alpha: ab},
			{sp: &gram.Space{Name: "core-1nt", Alpha: gram.Core, NNT: 1, Min: 6, Max: 7}, maxLen: 4, alpha: ab},
			{sp: &gram.Space{Name: "full-2nt", Alpha: gram.Full, NNT: 2, Min: 2, Max: 6}, maxLen: 3, alpha: ab},
			{sp: &gram.Space{Name: "core-2nt", Alpha: gram.Core, NNT: 2, Min: 7, Max: 7}, maxLen: 3, alpha: ab},
			{sp: &gram.Space{Name: "rep-1nt", Alpha: gram.Rep, NNT: 1, Min: 5, Max: 7}, maxLen: 4, alpha: ab},
			templateSpec("ab", 3, 2, 3),
			{sp: &gram.Space{Name: "core-2nt-mutual", Alpha: gram.Core, NNT: 2, Min: 8, Max: 8}, maxLen: 3, alpha: ab, mutualOnly: true},
			{sp: &gram.Space{Name: "core1-2nt-mutual", Alpha: gram.Core1, NNT: 2, Min: 2, Max: 9}, maxLen: 3, alpha: []byte{'a'}, mutualOnly: true},
		}
	}
	return []spaceSpec{
		{sp: &gram.Space{Name: "full-1nt", Alpha: gram.Full, NNT: 1, Min: 1, Max: 4}, maxLen: 4, alpha: ab},
		{sp: &gram.Space{Name: "core-1nt", Alpha: gram.Core, NNT: 1, Min: 5, Max: 6}, maxLen: 4, alpha: ab},
		{sp: &gram.Space{Name: "full-2nt", Alpha: gram.Full, NNT: 2, Min: 2, Max: 4}, maxLen: 4, alpha: ab},
		{sp: &gram.Space{Name: "core1-2nt-mutual", Alpha: gram.Core1, NNT: 2, Min: 2, Max: 7}, maxLen: 2, alpha: []byte{'a'}, mutualOnly: true},
		{sp: &gram.Space{Name: "rep-1nt", Alpha: gram.Rep, NNT: 1, Min: 5, Max: 6}, maxLen: 3, alpha: ab},
		templateSpec("ab", 3, 1, 2),
		{sp: &gram.Space{Name: "core1-2nt-mutual-finite", Alpha: gram.Core1, NNT: 2, Min: 8, Max: 8}, maxLen: 2, alpha: []byte{'a'}, mutualOnly: true, finiteOnShort: true},
	}
}

// c01Budget is the per-parse work meter (calls and results) of C01. Finitely ambiguous cases
// within the bounds need a few hundred calls; infinitely ambiguous ones grow as a power tower
// and are cut here (counted as undecided, never judged).
const c01Budget = 20000

// c01Compare judges one parse of nonterminal nt at start s against the table.
func c01Compare(res *explore.Result, t *ref.Table, b *impl.Built, nt, s int, o impl.Outcome, phase string, c Case) (violated bool) {
	bodyID := b.G.NTs[nt].ID
	where := fmt.Sprintf("%s, N%d at %d (%s)", c, nt, s, phase)
	switch {
	case o.Depth != "":
		res.Violate("unbounded-reentry", where+": "+o.Depth, c)
		return true
	case o.Panic != "":
		res.Violate("panic", where+": library panic: "+o.Panic, c)
		return true
	case o.Budget != "":
		res.Undecided(fmt.Sprintf("work meter (%d) tripped on some hugely ambiguous cases; they are not judged", c01Budget))
		if len(res.Notes) < 8 {
			res.Notes = append(res.Notes, "meter tripped: "+where)
		}
		return false
	}
	alts := impl.Alternatives(o.Node)
	base := impl.Base
	var implEnds uint64
	implTrees := map[string]bool{}
	for _, a := range alts {
		e := int(a.ReaderPos()) - base
		if e >= 0 && e <= 63 {
			implEnds |= 1 << uint(e)
		}
		implTrees[impl.Render(a, base)] = true
	}
	if len(alts) > len(implTrees) {
		res.Add("cases_with_duplicate_alternatives", 1)
	}
	refEnds := t.Ends[bodyID][s]
	if implEnds != refEnds {
		key := "lost-end"
		if implEnds&^refEnds != 0 {
			key = "spurious-end"
		}
		res.Violate(key, fmt.Sprintf("%s: reachable end positions: reference %v, library %v", where, t.EndSet(bodyID, s), endList(implEnds)), c)
		violated = true
	}
	if !t.Over[bodyID][s] {
		refTrees := map[string]bool{}
		for _, tr := range t.Trees[bodyID][s] {
			refTrees[tr.S] = true
		}
		lost, extra := diff(refTrees, implTrees)
		if len(lost) > 0 {
			res.Violate("lost-tree", fmt.Sprintf("%s: derivation(s) not returned: %s", where, short(lost, 3)), c)
			violated = true
		}
		if len(extra) > 0 {
			res.Violate("spurious-tree", fmt.Sprintf("%s: returned tree(s) that are not derivations: %s", where, short(extra, 3)), c)
			violated = true
		}
	} else {
		res.Add("cases_compared_on_ends_only", 1)
	}
	for _, a := range alts {
		v := impl.NewValidator(t, base)
		if !v.Valid(b.G.NTs[nt], a, s) {
			res.Violate("invalid-tree", fmt.Sprintf("%s: returned tree %s is not a valid derivation: %s", where, impl.Render(a, base), v.Why), c)
			violated = true
			break
		}
	}
	return violated
}

func endList(m uint64) []int {
	var out []int
	for q := 0; q < 64; q++ {
		if m&(1<<uint(q)) != 0 {
			out = append(out, q)
		}
	}
	return out
}

func anyOver(t *ref.Table) bool {
	for _, row := range t.Over {
		for _, o := range row {
			if o {
				return true
			}
		}
	}
	return false
}

func c01Grammar(res *explore.Result, g *gram.Grammar, inputs [][]byte, verbose bool) {
	an := gram.Analyze(g)
	switch {
	case !an.RepsConsume:
		res.Add("grammars_rejected_nullable_repetition", 1)
		return
	case !an.Stratified:
		res.Add("grammars_rejected_unstratified", 1)
		return
	}
	res.Add("grammars_admitted", 1)
	if an.LeftRecursive() {
		res.Add("grammars_left_recursive", 1)
	}
	b := impl.Build(g, impl.Options{})
	b.Mon.BudgetCalls, b.Mon.BudgetRes = c01Budget, c01Budget
	gs := g.String()
	trippedAt, lastLen := -1, 0
	var history []string // inputs parsed before with this grammar object
	undecidedBefore := res.Counters["undecided"]
	for _, w := range inputs {
		if trippedAt >= 0 && len(w) > trippedAt {
			res.Add("cases_skipped_after_meter_tripped", int64(len(w)+1))
			continue
		}
		if trippedAt < 0 && res.Counters["undecided"] > undecidedBefore {
			trippedAt = lastLen // the meter tripped on the previous input: skip strictly longer ones
			if len(w) > trippedAt {
				res.Add("cases_skipped_after_meter_tripped", int64(len(w)+1))
				continue
			}
		}
		lastLen = len(w)
		t := ref.Compute(g, an, w, true)
		c := Case{Placement: impl.Placement, Prior: b.MemoBefore, Grammar: gs, Input: string(w), History: append([]string{}, history...), Tokens: impl.Tokens != nil}
		history = append(history, string(w))
		if anyOver(t) && len(w) > 2 {
			// infinitely (or hugely) ambiguous on this input: the number of returned trees is a
			// power tower in the curtailment depth; such pairs are explored for |w| <= 2 only.
			res.Add("cases_skipped_infinite_ambiguity_long_input", int64(len(w)+1))
			continue
		}
		n := len(w)
		run := func(ctx *parsley.Context, nt, s int, phase string) bool {
			b.Mon.Reset()
			pos := ctx.Reader().Pos(s)
			o := b.Run(ctx, &b.NT[nt], pos)
			res.Add("states", 1)
			res.Add("transitions", b.Mon.Calls)
			res.Add("traces", 1)
			bad := c01Compare(res, t, b, nt, s, o, phase, c)
			if t.Ends[g.NTs[nt].ID][s] != 0 && (b.Mon.MaxActive >= 2 || b.Mon.OuterCalls > b.Mon.InnerCalls) {
				res.Add("nontrivial", 1)
			}
			if verbose {
				res.Notes = append(res.Notes, fmt.Sprintf("N%d at %d (%s): reference ends %v trees %v | library %s", nt, s, phase,
					t.EndSet(g.NTs[nt].ID, s), t.TreeStrings(g.NTs[nt].ID, s), impl.Render(o.Node, impl.Base)))
			}
			if res.Counters["states"]%20000 == 1 {
				res.Sample(fmt.Sprintf("%s N%d@%d -> ends %v, %d tree(s)", c, nt, s, t.EndSet(g.NTs[nt].ID, s), len(t.Trees[g.NTs[nt].ID][s])))
			}
			return bad
		}
		bad := false
		for nt := range b.NT {
			// warm history on ONE context: 0, 0 again, 1..n, 0 again
			ctx, _, _ := impl.NewContext(w)
			bad = run(ctx, nt, 0, "cold") || bad
			bad = run(ctx, nt, 0, "repeat on the same context") || bad
			for s := 1; s <= n; s++ {
				bad = run(ctx, nt, s, "warm context") || bad
			}
			bad = run(ctx, nt, 0, "again after all starts") || bad
			// cold parses from every other start
			for s := 1; s <= n && !bad; s++ {
				ctx2, _, _ := impl.NewContext(w)
				bad = run(ctx2, nt, s, "cold") || bad
			}
		}
		if bad && !verbose {
			return // one violating input per grammar is enough; smallest input first
		}
	}
}

func c01Run(env *explore.Env) *explore.Result {
	res := explore.NewResult()
	eachGrammarPlaced(env, res, c01Specs(env.Tier), seedCorpus, func(g *gram.Grammar, inputs [][]byte, _ bool) {
		c01Grammar(res, g, inputs, false)
	})
	// the seed corpus and the smallest grammars once more with terminals whose TOKEN NAMES are the ones the library
	// uses itself (EMPTY, SEQ): results must not depend on how a grammar writer names a token
	impl.Tokens = CollidingTokens
	defer func() { impl.Tokens = nil }()
	var small []spaceSpec
	for _, s := range c01Specs(env.Tier) {
		if s.tmpl == nil && s.sp.FixedShared == nil && s.sp.Min <= 4 {
			c := *s.sp
			if c.Max > 4 {
				c.Max = 4
			}
			s2 := s
			s2.sp = &c
			small = append(small, s2)
		}
	}
	eachGrammar(env, res, small, seedCorpus, func(g *gram.Grammar, inputs [][]byte, _ bool) {
		res.Add("grammars_with_colliding_token_names", 1)
		c01Grammar(res, g, inputs, false)
	})
	return res
}

func c01Replay(raw json.RawMessage) *explore.Result {
	res := explore.NewResult()
	c, g, err := parseCase(raw)
	if err != nil {
		res.Notes = append(res.Notes, "bad case: "+err.Error())
		return res
	}
	res.Notes = append(res.Notes, "case: "+c.String())
	var inputs [][]byte
	for _, h := range c.History {
		inputs = append(inputs, []byte(h))
	}
	c01Grammar(res, g, append(inputs, []byte(c.Input)), true)
	return res
}

func init() {
	explore.Register(&explore.Check{
		ID:    "C01",
		Level: "model_checking",
		Rule: "every admitted grammar (non-monotone operators stratified, repetition operands consuming) of the stated spaces x every input x every start position x {cold, repeated, warm} context; " +
			"the real parsers' alternatives are compared with the reference table (end positions always, tree sets when finite) and each returned tree is checked by an independent validator; " +
			"transition = one parser call observed by a wrapper; non-trivial = the reference derives at least one tree AND a memoized parser was re-entered at the same position or answered from the cache",
		Assume: []string{
			"reference semantics in mc/ref (least fixpoint per position over the same-position call graph) and the validator in mc/impl are the trusted model; they cross-check each other on every case",
			"single-byte terminals; infinitely ambiguous (grammar,input) pairs only for |w|<=2 and on end positions + validity; a<->b symmetric grammars represented by one member",
		},
		Run:    c01Run,
		Replay: c01Replay,
		Bounds: func(tier string) map[string]any { return boundsOf(c01Specs(tier), seedCorpus) },
	})
}
