// Package sx holds C14: concurrent parses sharing one parser graph. Two
// deciding steps: (1) exhaustive exploration of all interleavings up to a
// preemption bound of 2-3 real goroutines under the cooperative scheduler of
// mc/sched (scheduling points: parsley.VerifHook at every Context.RegisterCall,
// plus explicit points between constructor calls); (2) the same thread bodies
// and the workload corpora free-running under the Go race detector in a
// separate -race binary (a cooperative scheduler's hand-offs are happens-before
// edges and would blind the detector).
package sx

import (
	"bufio"
	"bytes"
	"encoding/json"
	"fmt"
	"github.com/opsidian/parsley/ast/interpreter"
	"go/ast"
	"go/parser"
	"go/token"
	"os"
	"os/exec"
	"path/filepath"
	"sort"
	"strings"
	"sync"

	past "github.com/opsidian/parsley/ast"
	"github.com/opsidian/parsley/combinator"
	"github.com/opsidian/parsley/data"
	pparser "github.com/opsidian/parsley/parser"
	"github.com/opsidian/parsley/parsley"
	"github.com/opsidian/parsley/text"
	"github.com/opsidian/parsley/text/terminal"

	"verif/mc/explore"
	"verif/mc/gram"
	"verif/mc/hook"
	"verif/mc/impl"
	"verif/mc/ix"
	"verif/mc/sched"
)

// current is the execution whose scheduler owns the running goroutines; nil when free-running.
var current *sched.Exec

func init() {
	hook.Yield = func() {
		if current != nil {
			current.Point()
		}
	}
}

// job is what one thread does: it returns a string observation (value / tree / error / call count).
type job func(pt func()) string

type scenario struct {
	name    string
	threads func() []job // fresh jobs (sharing whatever the scenario shares); a job named by post runs after the join
	bound   [2]int       // preemption bound quick, thorough
	// want: observations every thread must make, fixed by the scenario (used instead of the solo run when a solo
	// run in the same process could already be polluted by the state under test)
	want []string
	// post: when true the LAST job is not a thread: it runs after all threads have finished (uses what they built)
	post bool
}

func evalJob(p func() parsley.Parser, input string) job {
	return func(func()) string {
		f := text.NewFile("f", []byte(input))
		ctx := parsley.NewContext(parsley.NewFileSet(f), text.NewReader(f))
		v, err := parsley.Evaluate(ctx, p())
		return fmt.Sprintf("value=%#v err=%v calls=%d", v, err, ctx.CallCount())
	}
}

func parseJob(p func() parsley.Parser, input string, times int) job {
	return func(func()) string {
		var out []string
		for i := 0; i < times; i++ {
			f := text.NewFile("f", []byte(input))
			ctx := parsley.NewContext(parsley.NewFileSet(f), text.NewReader(f))
			n, err := parsley.Parse(ctx, p())
			out = append(out, fmt.Sprintf("tree=%s err=%v calls=%d", impl.Render(n, 1), err, ctx.CallCount()))
		}
		return strings.Join(out, " ; ")
	}
}

// constructJob builds its own two-nonterminal left-recursive grammar with a scheduling point between
// every constructor call, then parses with it.
func constructJob(input string) job {
	return func(pt func()) string {
		var a, b pparser.Func
		r := terminal.Rune
		pt()
		x := r('x')
		pt()
		sa := combinator.SeqOf(&b, x)
		pt()
		anyA := combinator.Any(sa, r('a'))
		pt()
		a = combinator.Memoize(anyA)
		pt()
		sb := combinator.SeqOf(&a, r('y'))
		pt()
		anyB := combinator.Any(sb, r('b'))
		pt()
		b = combinator.Memoize(anyB)
		pt()
		root := combinator.Sentence(&a)
		pt()
		f := text.NewFile("f", []byte(input))
		ctx := parsley.NewContext(parsley.NewFileSet(f), text.NewReader(f))
		n, err := parsley.Parse(ctx, root)
		return fmt.Sprintf("tree=%s err=%v calls=%d", impl.Render(n, 1), err, ctx.CallCount())
	}
}

func sharedGrammar(src string) func() parsley.Parser {
	g, err := gram.Parse(src)
	if err != nil {
		panic(err)
	}
	b := impl.Build(g, impl.Options{Bare: true})
	p := combinator.Sentence(&b.NT[0])
	return func() parsley.Parser { return p }
}

func scenarios() []scenario {
	arith := ix.ArithParser()
	arithP := func() parsley.Parser { return arith }
	js := ix.JSONRoot()
	jsP := func() parsley.Parser { return js }
	amb := sharedGrammar("N0=(any (seq N0 b N0) a)")
	hidden := sharedGrammar("N0=(seq (any N0 a (opt N0)) b)")
	var sc []scenario
	two := func(name string, p func() parsley.Parser, in1, in2 string) {
		sc = append(sc, scenario{name: fmt.Sprintf("%s: %q || %q", name, in1, in2), bound: [2]int{2, 3},
			threads: func() []job { return []job{evalJob(p, in1), evalJob(p, in2)} }})
	}
	// S1 shared left-recursive arithmetic grammar: success / syntax error / interpreter error
	two("S1 shared arithmetic", arithP, "1+2", "(1")
	two("S1 shared arithmetic", arithP, "2/0", "1*2")
	two("S1 shared arithmetic", arithP, "1-", "3")
	sc = append(sc, scenario{name: `S1 shared arithmetic, three threads: "1+2" || "(1" || "2/0"`, bound: [2]int{1, 2},
		threads: func() []job { return []job{evalJob(arithP, "1+2"), evalJob(arithP, "(1"), evalJob(arithP, "2/0")} }})
	// S2 shared JSON example parser: valid and invalid document
	two("S2 shared JSON example", jsP, `[1,"a"]`, `{"a":`)
	two("S2 shared JSON example", jsP, `{"a":1.5}`, `[1 2]`)
	// S3 shared ambiguous / hidden-left-recursive memoized grammars, two parses per thread
	sc = append(sc, scenario{name: `S3 shared ambiguous grammar N0=(any (seq N0 b N0) a): "aba" x2 || "ab" x2`, bound: [2]int{2, 3},
		threads: func() []job { return []job{parseJob(amb, "aba", 2), parseJob(amb, "ab", 2)} }})
	sc = append(sc, scenario{name: `S3 shared hidden-left-recursive grammar N0=(seq (any N0 a (opt N0)) b): "abb" x2 || "b" x2`, bound: [2]int{2, 3},
		threads: func() []job { return []job{parseJob(hidden, "abb", 2), parseJob(hidden, "b", 2)} }})
	// S4 concurrent construction (points between constructor calls), each thread parses with its own grammar
	sc = append(sc, scenario{name: `S4 concurrent construction: "ayx" || "b"`, bound: [2]int{2, 3},
		threads: func() []job { return []job{constructJob("ayx"), constructJob("b")} }})
	sc = append(sc, scenario{name: `S4 concurrent construction, three threads`, bound: [2]int{1, 2},
		threads: func() []job { return []job{constructJob("ayx"), constructJob("b"), constructJob("ayxyx")} }})
	// S6 split construction: the two memoized nonterminals of ONE grammar are constructed by two threads
	// (scheduling points at the atomic operations inside Memoize through the overlay build), then the grammar is used
	sc = append(sc, scenario{name: `S6 split construction of one grammar by two threads, then parse "ayxyx"`, bound: [2]int{2, 3}, post: true,
		threads: func() []job {
			var a, b pparser.Func
			r := terminal.Rune
			return []job{
				func(pt func()) string {
					pt()
					a = combinator.Memoize(combinator.Any(combinator.SeqOf(&b, r('x')), r('a')))
					pt()
					return "built A"
				},
				func(pt func()) string {
					pt()
					b = combinator.Memoize(combinator.Any(combinator.SeqOf(&a, r('y')), r('b')))
					pt()
					return "built B"
				},
				func(func()) string {
					f := text.NewFile("f", []byte("ayxyx"))
					ctx := parsley.NewContext(parsley.NewFileSet(f), text.NewReader(f))
					n, err := parsley.Parse(ctx, combinator.Sentence(&a))
					return fmt.Sprintf("tree=%s err=%v calls=%d", impl.Render(n, 1), err, ctx.CallCount())
				},
			}
		}})
	// S7 per-context keyword registry: one run registers a keyword in ITS context, the other does not; a shared
	// identifier parser consults ctx.IsKeyword. Expected observations are fixed (a solo run in this process would
	// already be polluted if contexts shared the registry).
	ident := pparser.Func(func(ctx *parsley.Context, l data.IntMap, pos parsley.Pos) (parsley.Node, data.IntSet, parsley.Error) {
		tr := ctx.Reader().(*text.Reader)
		end, m := tr.ReadRegexp(pos, "[a-z]+")
		if m == nil {
			return nil, data.EmptyIntSet, parsley.NewError(pos, parsley.NotFoundError("identifier"))
		}
		if ctx.IsKeyword(string(m)) {
			return nil, data.EmptyIntSet, parsley.NewErrorf(pos, "%s is a reserved keyword", string(m))
		}
		return past.NewTerminalNode(nil, "ID", string(m), pos, end), data.EmptyIntSet, nil
	})
	idents := combinator.Sentence(combinator.Many1(text.LeftTrim(ident, text.WsSpaces)))
	kwJob := func(register bool) job {
		return func(func()) string {
			f := text.NewFile("f", []byte("let it be"))
			ctx := parsley.NewContext(parsley.NewFileSet(f), text.NewReader(f))
			if register {
				ctx.RegisterKeywords("let", "in")
			}
			n, err := parsley.Parse(ctx, idents)
			return fmt.Sprintf("tree=%s err=%v keyword(let)=%v", impl.Render(n, 1), err, ctx.IsKeyword("let"))
		}
	}
	sc = append(sc, scenario{name: `S7 keyword registry is per context: one run registers "let", the other does not`, bound: [2]int{2, 3},
		threads: func() []job { return []job{kwJob(true), kwJob(false)} },
		want: []string{
			"tree=nil err=failed to parse the input: let is a reserved keyword at f:1:1 keyword(let)=true",
			"tree=SEQ(MANY(ID=let<0,3> ID=it<4,6> ID=be<7,9>)<0,9> EOF<9,9>)<0,9> err=<nil> keyword(let)=false",
		}})
	// S5 one thread constructs while another parses an already built shared grammar
	sc = append(sc, scenario{name: `S5 construction || parse of a shared grammar`, bound: [2]int{2, 3},
		threads: func() []job { return []job{constructJob("ayx"), parseJob(hidden, "abb", 1)} }})
	// S8 construction from a caller-owned list: two threads build Choice / Any / SeqOf parsers from ONE slice of
	// alternatives (spare capacity) and parse with them; afterwards the list must read as before. Constructors may
	// only read their arguments (the race pass sees a write even when it stores the value that is already there).
	sc = append(sc, scenario{name: `S8 two threads construct Choice/Any/SeqOf from one caller-owned list of alternatives`, bound: [2]int{2, 3}, post: true,
		threads: func() []job {
			r := terminal.Rune
			alts := make([]parsley.Parser, 0, 8)
			alts = append(alts, r('a'), r('b'), r('c'))
			orig := append([]parsley.Parser{}, alts...)
			build := func(input string) job {
				return func(pt func()) string {
					pt()
					c := combinator.Choice(alts...)
					pt()
					a := combinator.Any(alts...)
					pt()
					root := combinator.Sentence(combinator.SeqOf(c, a, combinator.SeqOf(alts...)))
					pt()
					f := text.NewFile("f", []byte(input))
					ctx := parsley.NewContext(parsley.NewFileSet(f), text.NewReader(f))
					n, err := parsley.Parse(ctx, root)
					return fmt.Sprintf("tree=%s err=%v calls=%d", impl.Render(n, 1), err, ctx.CallCount())
				}
			}
			return []job{build("ababc"), build("cbab"), func(func()) string {
				for i := range orig {
					if fmt.Sprintf("%p", alts[i]) != fmt.Sprintf("%p", orig[i]) {
						return fmt.Sprintf("slot %d of the caller's list was rewritten", i)
					}
				}
				return "the caller's list reads as before"
			}}
		}})
	// S9 two runs over the SAME input bytes (each with its own file, file set, reader and context): creating a file
	// must not write into the caller's buffer. The expected observation is taken from a private copy of the bytes.
	{
		const doc = "1+\r\n2"
		w := evalJob(func() parsley.Parser { return arith }, doc)(nil)
		sc = append(sc, scenario{name: `S9 two runs over the same input bytes "1+\r\n2" (CRLF), each with its own file and context`, bound: [2]int{1, 2},
			want: []string{w, w},
			threads: func() []job {
				raw := []byte(doc)
				run := func(func()) string {
					f := text.NewFile("f", raw)
					ctx := parsley.NewContext(parsley.NewFileSet(f), text.NewReader(f))
					v, err := parsley.Evaluate(ctx, arith)
					return fmt.Sprintf("value=%#v err=%v calls=%d", v, err, ctx.CallCount())
				}
				return []job{run, run}
			}})
	}
	// S10 two runs each load "their own" input with text.ReadFile from the same path and put it into differently
	// laid-out file sets: what ReadFile returns is the caller's alone (a mutable *File: AddFile sets its offset)
	sc = append(sc, scenario{name: `S10 two runs load the same path with text.ReadFile into differently laid-out file sets`, bound: [2]int{1, 2},
		threads: func() []job {
			path := scratchInput("1+\n(2")
			load := func(before int) job {
				return func(pt func()) string {
					pt()
					f, err := text.ReadFile(path)
					if err != nil {
						return "cannot read the scratch input: " + err.Error()
					}
					pt()
					fs := parsley.NewFileSet()
					if before > 0 {
						fs.AddFile(text.NewFile("before", []byte(strings.Repeat("x", before))))
					}
					fs.AddFile(f)
					pt()
					ctx := parsley.NewContext(fs, text.NewReader(f))
					v, perr := parsley.Evaluate(ctx, arith)
					msg := fmt.Sprint(perr)
					if i := strings.LastIndex(msg, "/"); i >= 0 {
						msg = msg[:strings.Index(msg, " at ")+4] + msg[i+1:] // keep the base name only
					}
					return fmt.Sprintf("value=%#v err=%s first position=%d calls=%d", v, msg, int(f.Pos(0)), ctx.CallCount())
				}
			}
			return []job{load(0), load(5)}
		}})
	// S11 what a run does with ITS OWN result must not show in another run's result: both evaluate a document with empty
	// objects through the shared JSON parser and write a key into every map they were handed
	{
		js := ix.JSONRoot()
		own := func(id string) job {
			return func(pt func()) string {
				f := text.NewFile("f", []byte(`[{}, {"a": {}}]`))
				ctx := parsley.NewContext(parsley.NewFileSet(f), text.NewReader(f))
				v, err := parsley.Evaluate(ctx, js)
				var mark func(x interface{})
				mark = func(x interface{}) {
					switch t := x.(type) {
					case map[string]interface{}:
						for _, y := range t {
							mark(y)
						}
						t["written by "+id] = true
					case []interface{}:
						for _, y := range t {
							mark(y)
						}
					}
				}
				mark(v)
				pt()
				return strings.ReplaceAll(fmt.Sprintf("value=%v err=%v", v, err), id, "me")
			}
		}
		sc = append(sc, scenario{name: `S11 two runs write into the (empty) objects of their own results`, bound: [2]int{1, 2},
			threads: func() []job { return []job{own("run A"), own("run B")} }})
	}
	// S12 a parser that is part of a running grammar is handed to a constructor (Single) by another thread: building a
	// parser must leave the parsers it is built from as they are
	sc = append(sc, scenario{name: `S12 one thread parses with a shared list parser while another builds Single(list)`, bound: [2]int{1, 2},
		threads: func() []job {
			list := combinator.SepBy(terminal.Integer(nil), terminal.Rune(',')).Bind(interpreter.Array())
			g1 := combinator.Sentence(list)
			return []job{
				func(pt func()) string {
					var out []string
					for _, in := range []string{"7", "7,8", "9"} {
						pt()
						f := text.NewFile("f", []byte(in))
						ctx := parsley.NewContext(parsley.NewFileSet(f), text.NewReader(f))
						v, err := parsley.Evaluate(ctx, g1)
						out = append(out, fmt.Sprintf("%#v %v", v, err))
					}
					return strings.Join(out, " ; ")
				},
				func(pt func()) string {
					pt()
					g2 := combinator.Sentence(combinator.Single(list))
					pt()
					f := text.NewFile("f", []byte("1,2"))
					ctx := parsley.NewContext(parsley.NewFileSet(f), text.NewReader(f))
					n, err := parsley.Parse(ctx, g2)
					return fmt.Sprintf("tree=%s err=%v", impl.Render(n, 1), err)
				},
			}
		}})
	return sc
}

// scratchInput writes content to a scratch file of this process (once) and returns its path.
var scratchPaths = map[string]string{}
var scratchDir string

func scratchInput(content string) string {
	if p, ok := scratchPaths[content]; ok {
		return p
	}
	if scratchDir == "" {
		d, err := os.MkdirTemp("", "verif-c14-")
		if err != nil {
			panic("C14 harness: " + err.Error())
		}
		scratchDir = d
	}
	p := filepath.Join(scratchDir, fmt.Sprintf("input%d.expr", len(scratchPaths)))
	if err := os.WriteFile(p, []byte(content), 0o600); err != nil {
		panic("C14 harness: " + err.Error())
	}
	scratchPaths[content] = p
	return p
}

func cleanupScratch() {
	if scratchDir != "" {
		os.RemoveAll(scratchDir)
		scratchDir, scratchPaths = "", map[string]string{}
	}
}

type c14Case struct {
	Scenario int    `json:"scenario"`
	Name     string `json:"name"`
	Choices  []int  `json:"schedule,omitempty"`
	Race     string `json:"race_report,omitempty"`
}

// postJob is the after-join job of the execution being run (scenarios with post == true).
var postJob job

// solo runs every job alone (no scheduler) to obtain the reference observations.
func solo(sc *scenario) []string {
	if sc.want != nil {
		return sc.want
	}
	var out []string
	for _, j := range sc.threads() {
		current = nil
		out = append(out, j(func() {}))
	}
	return out
}

func bodiesOf(sc *scenario, obs []string) []func(e *sched.Exec) {
	jobs := sc.threads()
	if sc.post {
		// the last job runs after the join (in the check callback, through postJob)
		postJob = jobs[len(jobs)-1]
		jobs = jobs[:len(jobs)-1]
	}
	bodies := make([]func(e *sched.Exec), len(jobs))
	for i, j := range jobs {
		i, j := i, j
		bodies[i] = func(e *sched.Exec) {
			current = e // VerifHook yields to the scheduler that owns this execution
			obs[i] = j(e.Point)
		}
	}
	return bodies
}

func exploreScenario(res *explore.Result, si int, sc *scenario, tier string, maxExec int64) {
	want := solo(sc)
	bound := sc.bound[0]
	if tier == "thorough" {
		bound = sc.bound[1]
	}
	var obs []string
	outcomes := map[string]bool{}
	st := sched.Explore(func() []func(e *sched.Exec) {
		obs = make([]string, len(want))
		return bodiesOf(sc, obs)
	}, bound, maxExec, func(e *sched.Exec) bool {
		current = nil
		cs := c14Case{Scenario: si, Name: sc.name, Choices: e.Choices()}
		if e.Divergence != "" {
			res.Violate("harness:divergence", sc.name+": "+e.Divergence, cs)
			return false
		}
		if e.Stuck {
			res.Undecided("a thread neither reached a scheduling point nor finished within 20s (schedule marked infeasible)")
			return false
		}
		ok := true
		if sc.post {
			func() {
				defer func() {
					if r := recover(); r != nil {
						obs[len(want)-1] = fmt.Sprint("panic: ", r)
					}
				}()
				obs[len(want)-1] = postJob(func() {})
			}()
		}
		for i := range want {
			if sc.post && i == len(want)-1 {
				if obs[i] != want[i] {
					res.Violate("differs-from-solo-run", fmt.Sprintf("%s: after the threads finished under schedule %v (%d preemption(s)) the grammar they built gives %s; built sequentially it gives %s", sc.name, compact(e.Choices()), e.Preemptions(), obs[i], want[i]), cs)
					ok = false
				}
				continue
			}
			if pm := e.Panics(i); pm != "" {
				res.Violate("panic-under-interleaving", fmt.Sprintf("%s: thread %d panicked under schedule %v (%d preemption(s)): %s", sc.name, i, compact(e.Choices()), e.Preemptions(), pm), cs)
				ok = false
			} else if obs[i] != want[i] {
				res.Violate("differs-from-solo-run", fmt.Sprintf("%s: thread %d under schedule %v (%d preemption(s)) observed %s; alone it observes %s", sc.name, i, compact(e.Choices()), e.Preemptions(), obs[i], want[i]), cs)
				ok = false
			}
		}
		outcomes[strings.Join(obs, " || ")] = true
		return ok
	})
	res.Add("states", st.Executions)
	res.Add("transitions", st.Points)
	res.Add("traces", st.Executions)
	res.Add("nontrivial", st.Executions-st.ByBound[0])
	res.Max("max_points_per_execution", int64(st.MaxPoints))
	for b, n := range st.ByBound {
		res.Add(fmt.Sprintf("schedules_with_%d_preemptions", b), n)
	}
	res.Outcome(fmt.Sprintf("%s: %d distinct outcome(s)", sc.name, len(outcomes)))
	res.Sample(fmt.Sprintf("%s: %d schedules up to %d preemptions, %d points in the longest; solo observations %v", sc.name, st.Executions, bound, st.MaxPoints, want))
	if st.Truncated {
		res.Undecided(fmt.Sprintf("execution cap %d reached in scenario %q: the preemption bound was not completed", maxExec, sc.name))
	}
}

func compact(c []int) string {
	// only the positions of non-default choices matter
	var parts []string
	for i, x := range c {
		if x != 0 {
			parts = append(parts, fmt.Sprintf("@%d:%d", i, x))
		}
	}
	return "[" + strings.Join(parts, " ") + "] of " + fmt.Sprint(len(c))
}

func c14Run(env *explore.Env) *explore.Result {
	defer cleanupScratch()
	res := explore.NewResult()
	scs := scenarios()
	maxExec := int64(60000)
	if env.Thorough() {
		maxExec = 3000000
	}
	for si := range scs {
		if !env.Mine(int64(si)) {
			continue
		}
		sc := &scs[si]
		exploreScenario(res, si, sc, env.Tier, maxExec)
	}
	if env.Shard == 0 {
		racePass(res, env.Tier)
		res.Notes = append(res.Notes, inventory()...)
	}
	return res
}

// ---- race pass (runs inside the -race binary) -------------------------------------------------

// RacePassMain is the body of `verif-race racepass <tier>`: the scenario jobs and the workload corpora run on
// free-running goroutines that share parser graphs and synchronise only at the final join.
func RacePassMain(tier string) {
	defer cleanupScratch()
	current = nil
	counts := map[string]int{}
	var mu sync.Mutex
	runAll := func(name string, workers int, items []string, mk func() func(s string)) {
		var wg sync.WaitGroup
		for w := 0; w < workers; w++ {
			wg.Add(1)
			f := mk()
			go func(w int) {
				defer wg.Done()
				// every worker walks the whole corpus, starting at a different place, so that any two items overlap in time somewhere
				for k := range items {
					s := items[(k+w*len(items)/workers)%len(items)]
					func() {
						defer func() { _ = recover() }()
						f(s)
					}()
				}
			}(w)
		}
		wg.Wait()
		mu.Lock()
		counts[name] += workers * len(items)
		mu.Unlock()
	}
	// scenario jobs, all threads of a scenario started together, repeated; each observation must equal the solo one
	// (free-running: this part is a sample of real-time interleavings at instruction granularity, complementing
	// the exhaustive exploration at call granularity; a difference is printed as a DIFFERS line)
	for _, sc := range scenarios() {
		sc := sc
		// the solo observations are taken from a SEPARATE instance of the scenarios: the instances used below
		// see their first parses concurrently (a lazily initialised field of the parser graph would be set by a warm-up)
		var want []string
		for _, ref := range scenarios() {
			if ref.name == sc.name {
				ref := ref
				want = solo(&ref)
			}
		}
		for rep := 0; rep < 60; rep++ {
			var wg sync.WaitGroup
			jobs := sc.threads()
			got := make([]string, len(jobs))
			var after job
			if sc.post {
				after = jobs[len(jobs)-1]
				jobs = jobs[:len(jobs)-1]
			}
			for i, j := range jobs {
				wg.Add(1)
				i, j := i, j
				go func() {
					defer wg.Done()
					defer func() {
						if r := recover(); r != nil {
							got[i] = fmt.Sprint("panic: ", r)
						}
					}()
					got[i] = j(func() {})
				}()
			}
			wg.Wait()
			if after != nil {
				func() {
					defer func() {
						if r := recover(); r != nil {
							got[len(got)-1] = fmt.Sprint("panic: ", r)
						}
					}()
					got[len(got)-1] = after(func() {})
				}()
			}
			for i := range got {
				if got[i] != want[i] {
					fmt.Printf("DIFFERS %s: thread %d free-running observed %s; alone %s\n", sc.name, i, got[i], want[i])
				}
			}
		}
		counts["scenario jobs"] += 60
	}
	// split construction: the two memoized nonterminals of ONE grammar are constructed by two goroutines released
	// at the same instant, then the grammar is used; the result must equal the solo result (two Memoize calls that
	// overlap in time must still draw different cache keys)
	{
		want := constructJob("ayxyx")(func() {})
		diffs := 0
		for k := 0; k < 4000; k++ {
			var a, b pparser.Func
			r := terminal.Rune
			start := make(chan struct{})
			var wg sync.WaitGroup
			wg.Add(2)
			go func() {
				defer wg.Done()
				<-start
				a = combinator.Memoize(combinator.Any(combinator.SeqOf(&b, r('x')), r('a')))
			}()
			go func() {
				defer wg.Done()
				<-start
				b = combinator.Memoize(combinator.Any(combinator.SeqOf(&a, r('y')), r('b')))
			}()
			close(start)
			wg.Wait()
			f := text.NewFile("f", []byte("ayxyx"))
			ctx := parsley.NewContext(parsley.NewFileSet(f), text.NewReader(f))
			var got string
			func() {
				defer func() {
					if rec := recover(); rec != nil {
						got = fmt.Sprint("panic: ", rec)
					}
				}()
				n, err := parsley.Parse(ctx, combinator.Sentence(&a))
				got = fmt.Sprintf("tree=%s err=%v calls=%d", impl.Render(n, 1), err, ctx.CallCount())
			}()
			if got != want {
				if diffs < 3 {
					fmt.Printf("DIFFERS split construction (attempt %d): a grammar whose two memoized nonterminals were constructed by two goroutines at the same time parses \"ayxyx\" to %s; built sequentially %s\n", k, got, want)
				}
				diffs++
			}
		}
		counts["split construction with result check"] += 4000
	}
	// heavy concurrent construction: many goroutines build the two-nonterminal grammar at the same time and parse
	// with their own copy; every result must equal the solo result
	{
		inputs := []string{"ayx", "b", "ayxyx", "a", "ayxy"}
		want := map[string]string{}
		for _, in := range inputs {
			want[in] = constructJob(in)(func() {})
		}
		var wg sync.WaitGroup
		var dmu sync.Mutex
		diffs := 0
		for w := 0; w < 8; w++ {
			wg.Add(1)
			go func(w int) {
				defer wg.Done()
				for k := 0; k < 400; k++ {
					in := inputs[(k+w)%len(inputs)]
					var got string
					func() {
						defer func() {
							if r := recover(); r != nil {
								got = fmt.Sprint("panic: ", r)
							}
						}()
						got = constructJob(in)(func() {})
					}()
					if got != want[in] {
						dmu.Lock()
						if diffs < 5 {
							fmt.Printf("DIFFERS concurrent construction: a grammar built while others were being built parses %q to %s; alone %s\n", in, got, want[in])
						}
						diffs++
						dmu.Unlock()
					}
				}
			}(w)
		}
		wg.Wait()
		counts["concurrent construction with result check"] += 3200
	}
	maxArith, maxJSON, maxLit := 3, 2, 2
	if tier == "thorough" {
		maxArith, maxJSON, maxLit = 4, 3, 3
	}
	eval := func(p parsley.Parser) func() func(string) {
		return func() func(string) {
			return func(s string) {
				f := text.NewFile("f", []byte(s))
				ctx := parsley.NewContext(parsley.NewFileSet(f), text.NewReader(f))
				_, _ = parsley.Evaluate(ctx, p)
			}
		}
	}
	runAll("arithmetic corpus", 4, ix.Corpus("arith", maxArith), eval(ix.ArithParser()))
	runAll("json corpus", 4, ix.Corpus("json", maxJSON), eval(ix.JSONRoot()))
	for _, lit := range ix.LiteralCorpus(maxLit) {
		lit := lit
		runAll("literal parsers", 3, lit.Inputs, func() func(string) {
			return func(s string) {
				f := text.NewFile("f", []byte(s))
				ctx := parsley.NewContext(parsley.NewFileSet(f), text.NewReader(f))
				for o := 0; o <= len(s); o++ {
					_, _, _ = lit.P.Parse(ctx, data.EmptyIntMap, parsley.Pos(1+o))
				}
			}
		})
	}
	for _, src := range []string{"N0=(any (seq N0 b N0) a)", "N0=(seq (any N0 a (opt N0)) b)", "N0=(any (seq (opt b) N0 b) a)", "N0=(any (seq N1 a) a); N1=(any (seq N0 b) b)", "N0=(choice (seqtry a N0 b) (seqfoa a b N0) eps)", "N0=(seq (many a) (sepby b a) (opt N0))"} {
		p := sharedGrammar(src)()
		var inputs []string
		for _, w := range gram.Inputs([]byte{'a', 'b'}, 4) {
			inputs = append(inputs, string(w))
		}
		runAll("generated grammars", 4, inputs, eval(p))
	}
	for _, p := range ix.TrimCorpusParsers() {
		runAll("trimmed token sequences", 3, ix.Corpus("trim", 2), eval(p))
	}
	// concurrent construction of grammars (Memoize draws indexes) and use of the shared empty set/map
	runAll("concurrent construction", 6, strings.Split(strings.Repeat("ayx,b,ayxyx,a,", 50), ","), func() func(string) {
		return func(s string) { constructJob(s)(func() {}) }
	})
	runAll("shared empty IntSet/IntMap", 6, strings.Split(strings.Repeat("x,", 500), ","), func() func(string) {
		return func(string) {
			s := data.EmptyIntSet.Insert(1).Union(data.EmptyIntSet).Insert(2)
			m := data.EmptyIntMap.Inc(1).Inc(2).Filter(s)
			_ = m.Keys()
			_ = data.EmptyIntSet.Len() + len(data.EmptyIntMap.Keys())
		}
	})
	b, _ := json.Marshal(counts)
	fmt.Println("RACEPASS " + string(b))
}

// racePass executes the -race binary and turns every report into a violation.
func racePass(res *explore.Result, tier string) {
	self, _ := os.Executable()
	bin := self + "-race"
	if b := os.Getenv("VERIF_RACE_BIN"); b != "" {
		bin = b
	}
	if _, err := os.Stat(bin); err != nil {
		res.Undecided("race pass not run: " + bin + " is missing (bin/check builds it for C14)")
		return
	}
	cmd := exec.Command(bin, "racepass", tier)
	cmd.Env = append(os.Environ(), "GORACE=halt_on_error=0 exitcode=0 history_size=3", "GOMAXPROCS=8")
	var stdout bytes.Buffer
	cmd.Stdout = &stdout
	errPipe, perr := cmd.StderrPipe()
	if perr != nil || cmd.Start() != nil {
		res.Undecided("race pass could not be started")
		return
	}
	// Stream the detector's output: a racy tree produces gigabytes of reports. Keep the first 40 and stop the pass.
	var stderr strings.Builder
	nReports, stopped := 0, false
	rd := bufio.NewReaderSize(errPipe, 1<<16)
	for {
		line, rerr := rd.ReadString('\n')
		if strings.Contains(line, "WARNING: DATA RACE") {
			nReports++
			if nReports > 40 {
				stopped = true
				_ = cmd.Process.Kill()
				break
			}
		}
		if stderr.Len() < 1<<20 {
			stderr.WriteString(line)
		}
		if rerr != nil {
			break
		}
	}
	err := cmd.Wait()
	ran := stopped
	if stopped {
		res.Notes = append(res.Notes, "race pass stopped after 40 race reports")
	}
	for _, line := range strings.Split(stdout.String(), "\n") {
		if strings.HasPrefix(line, "RACEPASS ") {
			ran = true
			var counts map[string]int
			_ = json.Unmarshal([]byte(line[9:]), &counts)
			total := 0
			for k, v := range counts {
				res.Add("race_pass_items:"+k, int64(v))
				total += v
			}
			res.Add("race_pass_concurrent_items", int64(total))
		}
	}
	for _, line := range strings.Split(stdout.String(), "\n") {
		if strings.HasPrefix(line, "DIFFERS ") {
			// a sample of real-time interleavings is not reproducible on demand: recorded in the evidence (and a
			// strong hint), but the verdict is left to the exhaustive exploration and to the race detector
			res.Add("free_running_differences", 1)
			if len(res.Notes) < 30 {
				res.Notes = append(res.Notes, "free-running concurrent use differs from the solo run: "+line[8:])
			}
		}
	}
	if !ran {
		es := stderr.String()
		if i := strings.Index(es, "fatal error: concurrent map"); i >= 0 {
			// the runtime itself detected unsynchronised access to a map shared by the concurrent parses
			res.Violate("fatal:concurrent-map-access", "free-running concurrent parses crashed the process: "+squash(es[i:], 600), c14Case{Scenario: -1, Name: "race pass", Race: "fatal"})
			return
		}
		res.Undecided(fmt.Sprintf("race pass did not complete (%v): %s", err, tail(es, 600)))
		return
	}
	reports := strings.Split(stderr.String(), "WARNING: DATA RACE")
	seen := map[string]bool{}
	for _, rep := range reports[1:] {
		if i := strings.Index(rep, "=================="); i >= 0 {
			rep = rep[:i]
		}
		// key: the library frames of the two accesses
		var frames []string
		for _, line := range strings.Split(rep, "\n") {
			line = strings.TrimSpace(line)
			if strings.HasPrefix(line, "github.com/opsidian/parsley") {
				fn := strings.TrimSuffix(line, "()")
				frames = append(frames, strings.TrimPrefix(fn, "github.com/opsidian/parsley/"))
			}
		}
		if len(frames) == 0 {
			res.Notes = append(res.Notes, "race report without a library frame (harness race?): "+tail(rep, 300))
			continue
		}
		top := frames[0]
		res.Add("race_reports", 1)
		if seen[top] {
			continue
		}
		seen[top] = true
		res.Violate("data-race:"+top, "the race detector reports a data race between concurrent parses, first library frame "+top+": "+squash(rep, 700), c14Case{Scenario: -1, Name: "race pass", Race: top})
	}
}

func tail(s string, n int) string {
	if len(s) > n {
		return "…" + s[len(s)-n:]
	}
	return s
}

func squash(s string, n int) string {
	s = strings.Join(strings.Fields(s), " ")
	if len(s) > n {
		return s[:n] + "…"
	}
	return s
}

// inventory lists the package-level variables of the library's non-test code and how function bodies use
// them (supporting information in the evidence, never a verdict).
func inventory() []string {
	root := os.Getenv("REPO_DIR")
	if root == "" {
		root = "/repo"
	}
	var out []string
	fset := token.NewFileSet()
	_ = filepath.Walk(root, func(path string, info os.FileInfo, err error) error {
		if err != nil {
			return nil
		}
		if info.IsDir() {
			n := info.Name()
			if strings.HasPrefix(n, ".") || n == "examples" || strings.HasSuffix(n, "fakes") || n == "tools" || n == "vendor" {
				if path != root {
					return filepath.SkipDir
				}
			}
			return nil
		}
		if !strings.HasSuffix(path, ".go") || strings.HasSuffix(path, "_test.go") {
			return nil
		}
		f, perr := parser.ParseFile(fset, path, nil, 0)
		if perr != nil {
			return nil
		}
		vars := map[string]bool{}
		for _, d := range f.Decls {
			if gd, ok := d.(*ast.GenDecl); ok && gd.Tok == token.VAR {
				for _, sp := range gd.Specs {
					for _, n := range sp.(*ast.ValueSpec).Names {
						if n.Name != "_" {
							vars[n.Name] = true
						}
					}
				}
			}
		}
		if len(vars) == 0 {
			return nil
		}
		// uses are searched in the whole package directory
		use := map[string]map[string]bool{}
		pkgs, _ := parser.ParseDir(fset, filepath.Dir(path), func(fi os.FileInfo) bool { return !strings.HasSuffix(fi.Name(), "_test.go") }, 0)
		for _, pkg := range pkgs {
			for _, pf := range pkg.Files {
				ast.Inspect(pf, func(n ast.Node) bool {
					switch x := n.(type) {
					case *ast.AssignStmt:
						for _, l := range x.Lhs {
							if id, ok := l.(*ast.Ident); ok && vars[id.Name] && x.Tok != token.DEFINE {
								mark(use, id.Name, "assigned")
							}
						}
					case *ast.IncDecStmt:
						if id, ok := x.X.(*ast.Ident); ok && vars[id.Name] {
							mark(use, id.Name, "inc/dec")
						}
					case *ast.UnaryExpr:
						if id, ok := x.X.(*ast.Ident); ok && x.Op == token.AND && vars[id.Name] {
							mark(use, id.Name, "address taken")
						}
					}
					return true
				})
			}
		}
		rel, _ := filepath.Rel(root, path)
		var names []string
		for v := range vars {
			names = append(names, v)
		}
		sort.Strings(names)
		for _, v := range names {
			how := "read only in function bodies"
			if len(use[v]) > 0 {
				var hs []string
				for h := range use[v] {
					hs = append(hs, h)
				}
				sort.Strings(hs)
				how = strings.Join(hs, ", ")
			}
			out = append(out, fmt.Sprintf("package-level variable %s (%s): %s", v, rel, how))
		}
		return nil
	})
	sort.Strings(out)
	return out
}

func mark(m map[string]map[string]bool, v, how string) {
	if m[v] == nil {
		m[v] = map[string]bool{}
	}
	m[v][how] = true
}

func c14Replay(raw json.RawMessage) *explore.Result {
	defer cleanupScratch()
	res := explore.NewResult()
	var c c14Case
	if err := json.Unmarshal(raw, &c); err != nil {
		res.Notes = append(res.Notes, "bad case")
		return res
	}
	if c.Scenario < 0 {
		// a race report: re-run the race pass and look for a race with the same first library frame
		// the free-running pass is a sample of real-time interleavings: give it a few runs to show the problem again
		var tmp *explore.Result
		for try := 0; try < 4; try++ {
			tmp = explore.NewResult()
			racePass(tmp, "quick")
			if len(tmp.Violations) > 0 {
				break
			}
		}
		// which of several racing accesses the detector reports first varies between runs: the case
		// reproduces when the race pass reports a data race with the same first library frame, or, failing
		// that, any data race inside the library
		for _, v := range tmp.Violations {
			if v.Key == "data-race:"+c.Race {
				res.Violate(v.Key, v.What, c)
			}
		}
		if res.ViolationCount == 0 && len(tmp.Violations) > 0 {
			// (also covers DIFFERS / fatal cases, whose keys are not frames)
			v := tmp.Violations[0]
			res.Violate(v.Key, "(a different library race than the recorded one) "+v.What, c)
		}
		res.Notes = append(res.Notes, fmt.Sprintf("race pass re-run: %d report(s)", tmp.Counters["race_reports"]))
		return res
	}
	scs := scenarios()
	if c.Scenario >= len(scs) {
		res.Notes = append(res.Notes, "unknown scenario")
		return res
	}
	sc := &scs[c.Scenario]
	want := solo(sc)
	var first []string
	for rep := 0; rep < 2; rep++ { // the same schedule twice: observations must be identical
		obs := make([]string, len(want))
		e := sched.Replay(bodiesOfCurrent(sc, obs), c.Choices)
		current = nil
		if e.Divergence != "" {
			res.Violate("harness:divergence", e.Divergence, c)
			return res
		}
		if sc.post {
			obs[len(want)-1] = postJob(func() {})
		}
		if rep == 0 {
			first = obs
			for i := range want {
				if sc.post && i == len(want)-1 {
					if obs[i] != want[i] {
						res.Violate("differs-from-solo-run", fmt.Sprintf("after the join the grammar gives %s; built sequentially %s", obs[i], want[i]), c)
					}
					continue
				}
				if pm := e.Panics(i); pm != "" {
					res.Violate("panic-under-interleaving", fmt.Sprintf("thread %d panicked: %s", i, pm), c)
				} else if obs[i] != want[i] {
					res.Violate("differs-from-solo-run", fmt.Sprintf("thread %d observed %s; alone %s", i, obs[i], want[i]), c)
				}
			}
		} else if strings.Join(first, "|") != strings.Join(obs, "|") {
			res.Violate("harness:nondeterministic-replay", "the same schedule gave different observations on two runs", c)
		}
	}
	res.Notes = append(res.Notes, fmt.Sprintf("scenario %s, schedule %s: observations %v, solo %v", sc.name, compact(c.Choices), first, want))
	return res
}

func bodiesOfCurrent(sc *scenario, obs []string) []func(e *sched.Exec) {
	return bodiesOf(sc, obs)
}

func init() {
	explore.Register(&explore.Check{
		ID:    "C14",
		Level: "model_checking",
		Rule: "stateless exploration of ALL interleavings with at most B preemptions (B = 2, thorough 3; three-thread scenarios 1/2) of real goroutines under a cooperative scheduler, scheduling point = every Context.RegisterCall (hook under build tag verif) plus a point between every constructor call and, through an overlay build that compiles the library against a stand-in for sync/atomic, at every atomic operation; scenarios: shared arithmetic grammar (success, syntax error, interpreter error; 2 and 3 threads), shared JSON example parser, shared ambiguous and hidden-left-recursive memoized grammars with two parses per thread, concurrent construction (2 and 3 threads), split construction of one grammar by two threads, construction while parsing; oracle: each thread's value/tree/error/call count equals its solo run, no panic; " +
			"PLUS a free-running pass of the same jobs and of the arithmetic/JSON/literal/generated-grammar/trim corpora on shared parsers in a -race binary: any race report with a library frame is a violation; " +
			"state = one complete schedule; transition = one scheduling decision; non-trivial = a schedule with at least one preemption",
		Assume: []string{
			"interleavings are explored at the granularity of combinator-to-sub-parser calls; finer-grained conflicts are the race pass's job (happens-before detector, independent of timing once both accesses execute)",
			"sequentially consistent execution under the cooperative scheduler; weak-memory effects are not modelled",
		},
		Shards: func(string) int { return 13 },
		Run:    c14Run,
		Replay: c14Replay,
		Bounds: func(tier string) map[string]any {
			m := map[string]any{}
			i := 0
			if tier == "thorough" {
				i = 1
			}
			for _, sc := range scenarios() {
				m[sc.name] = fmt.Sprintf("preemption bound %d", sc.bound[i])
			}
			return m
		},
	})
}
