// Command verif is the driver of every check in /verif (see DESIGN.md).
package main

import (
	"fmt"
	"os"
	"strconv"

	"verif/mc/explore"
	_ "verif/mc/gx"
	_ "verif/mc/hist"
	_ "verif/mc/ix"
	"verif/mc/sx"
)

func usage() int {
	fmt.Fprintln(os.Stderr, "usage: verif check <ID> <quick|thorough> | verif replay <file> | verif list")
	return 2
}

func main() {
	os.Exit(run())
}

func run() int {
	a := os.Args[1:]
	if len(a) == 0 {
		return usage()
	}
	switch a[0] {
	case "list":
		for _, id := range explore.IDs() {
			fmt.Println(id)
		}
		return 0
	case "check":
		if len(a) != 3 || (a[2] != "quick" && a[2] != "thorough") {
			return usage()
		}
		return explore.CheckMain(a[1], a[2])
	case "worker":
		if len(a) != 6 {
			return usage()
		}
		s, _ := strconv.Atoi(a[3])
		n, _ := strconv.Atoi(a[4])
		seed, _ := strconv.ParseInt(a[5], 10, 64)
		return explore.WorkerMain(a[1], a[2], s, n, seed)
	case "racepass":
		tier := "quick"
		if len(a) > 1 {
			tier = a[1]
		}
		sx.RacePassMain(tier)
		return 0
	case "replay":
		if len(a) != 2 {
			return usage()
		}
		return explore.ReplayMain(a[1])
	}
	return usage()
}
