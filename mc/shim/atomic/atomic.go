// Package atomic is a drop-in stand-in for sync/atomic used ONLY in the overlay build of the schedule
// explorer (bin/build sx): every library file that imports "sync/atomic" is compiled with that import
// rewritten to this package, so that each atomic operation becomes a scheduling point of the cooperative
// scheduler (an atomic read-modify-write is one step; two of them in a row are two steps that other threads
// can come between). The operations themselves are the real ones.
package atomic

import (
	real "sync/atomic"

	"verif/mc/hook"
)

func point() {
	if hook.Yield != nil {
		hook.Yield()
	}
}

type (
	Int32   = real.Int32
	Int64   = real.Int64
	Uint32  = real.Uint32
	Uint64  = real.Uint64
	Bool    = real.Bool
	Value   = real.Value
	Uintptr = real.Uintptr
)

func AddInt32(addr *int32, delta int32) int32     { point(); return real.AddInt32(addr, delta) }
func AddInt64(addr *int64, delta int64) int64     { point(); return real.AddInt64(addr, delta) }
func AddUint32(addr *uint32, delta uint32) uint32 { point(); return real.AddUint32(addr, delta) }
func AddUint64(addr *uint64, delta uint64) uint64 { point(); return real.AddUint64(addr, delta) }
func LoadInt32(addr *int32) int32                 { point(); return real.LoadInt32(addr) }
func LoadInt64(addr *int64) int64                 { point(); return real.LoadInt64(addr) }
func LoadUint32(addr *uint32) uint32              { point(); return real.LoadUint32(addr) }
func LoadUint64(addr *uint64) uint64              { point(); return real.LoadUint64(addr) }
func StoreInt32(addr *int32, v int32)             { point(); real.StoreInt32(addr, v) }
func StoreInt64(addr *int64, v int64)             { point(); real.StoreInt64(addr, v) }
func StoreUint32(addr *uint32, v uint32)          { point(); real.StoreUint32(addr, v) }
func StoreUint64(addr *uint64, v uint64)          { point(); real.StoreUint64(addr, v) }
func SwapInt32(addr *int32, v int32) int32        { point(); return real.SwapInt32(addr, v) }
func SwapInt64(addr *int64, v int64) int64        { point(); return real.SwapInt64(addr, v) }
func CompareAndSwapInt32(addr *int32, old, new int32) bool {
	point()
	return real.CompareAndSwapInt32(addr, old, new)
}
func CompareAndSwapInt64(addr *int64, old, new int64) bool {
	point()
	return real.CompareAndSwapInt64(addr, old, new)
}
func CompareAndSwapUint32(addr *uint32, old, new uint32) bool {
	point()
	return real.CompareAndSwapUint32(addr, old, new)
}
func CompareAndSwapUint64(addr *uint64, old, new uint64) bool {
	point()
	return real.CompareAndSwapUint64(addr, old, new)
}
