module verif/mc

go 1.23

require github.com/opsidian/parsley v0.0.0

replace github.com/opsidian/parsley => /repo
