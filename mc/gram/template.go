package gram

// TemplateSpace enumerates two-nonterminal grammars whose bodies are Any-lists of 2..MaxAlts alternatives
// drawn from a menu of hidden-left-recursion templates over the terminals Letters:
//
//	t | Nj | (seq Nj t) | (seq (opt t) Nj t') | (seq eps Nj t)
//
// It targets the interaction the size-bounded spaces cannot reach: a sequence that starts with an optional
// (or empty) prefix in front of a left-recursive call, in two mutually recursive memoized rules, where the
// consuming reading of the prefix is explored before the empty one and a cached result is reused by a second
// call site. Only grammars in which both nonterminals lie on a common same-position cycle are produced.
type TemplateSpace struct {
	Name     string
	Letters  []byte
	MaxAlts  int // alternatives of N0: 1..MaxAlts
	MaxAlts1 int // alternatives of N1: 1..MaxAlts1
}

func (ts *TemplateSpace) menu() []*Expr {
	var m []*Expr
	for _, t := range ts.Letters {
		m = append(m, Term(t))
	}
	for j := 0; j < 2; j++ {
		m = append(m, Ref(j))
		for _, t := range ts.Letters {
			m = append(m, Op(Seq, Ref(j), Term(t)))
			m = append(m, Op(Seq, Epsilon(), Ref(j), Term(t)))
			for _, u := range ts.Letters {
				m = append(m, Op(Seq, Op(Opt, Term(u)), Ref(j), Term(t)))
			}
		}
	}
	return m
}

func (ts *TemplateSpace) bodies(maxAlts int) []*Expr {
	menu := ts.menu()
	var out []*Expr
	var rec func(chosen []int)
	rec = func(chosen []int) {
		if len(chosen) == 1 {
			out = append(out, menu[chosen[0]])
		}
		if len(chosen) >= 2 {
			kids := make([]*Expr, len(chosen))
			for i, c := range chosen {
				kids[i] = menu[c]
			}
			out = append(out, &Expr{K: Any, Kids: kids})
		}
		if len(chosen) == maxAlts {
			return
		}
		for c := range menu {
			dup := false
			for _, x := range chosen {
				dup = dup || x == c
			}
			if !dup {
				rec(append(append([]int{}, chosen...), c))
			}
		}
	}
	rec(nil)
	return out
}

// Each enumerates the grammars; idx numbers them consecutively.
func (ts *TemplateSpace) Each(f func(idx int64, g *Grammar)) {
	bodies0, bodies1 := ts.bodies(ts.MaxAlts), ts.bodies(ts.MaxAlts1)
	var idx int64
	for _, b0 := range bodies0 {
		for _, b1 := range bodies1 {
			g := &Grammar{NTs: []*Expr{b0.Clone(), b1.Clone()}}
			g.Index()
			an := Analyze(g)
			if an.SCC[g.NTs[0].ID] != an.SCC[g.NTs[1].ID] {
				continue
			}
			f(idx, g)
			idx++
		}
	}
}
