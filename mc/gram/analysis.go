package gram

// Edge is a same-position call edge: From may invoke To at the position From
// itself was invoked at. Negative: the FAILURE of To can produce a result of
// From (non-monotone dependency).
type Edge struct {
	From, To int
	Negative bool
}

// Analysis holds the static facts the properties' side conditions need.
type Analysis struct {
	G        *Grammar
	Nullable []bool // over-approximation: may derive an empty span
	Edges    []Edge
	SCC      []int   // component number per node; callees have smaller-or-equal numbers... see Order
	Order    [][]int // components in callee-first order, each a list of node IDs
	inCycle  []bool  // node lies on a same-position cycle

	Stratified   bool // no negative edge inside a component
	RepsConsume  bool // every repetition operand is non-nullable
	LeftRecFree  bool // same-position graph acyclic
	HasTrim      bool
	Unproductive bool // some nonterminal can never produce a result (informational)
}

// Analyze computes the analysis of an indexed grammar.
func Analyze(g *Grammar) *Analysis {
	nodes := g.Nodes()
	n := len(nodes)
	a := &Analysis{G: g, Nullable: make([]bool, n)}

	// nullable: least fixpoint of an over-approximating rule set
	for changed := true; changed; {
		changed = false
		for _, e := range nodes {
			if a.Nullable[e.ID] {
				continue
			}
			v := false
			switch e.K {
			case T:
				v = false
			case Eps, Opt, Many, SepBy, End:
				v = true
			case NT, Sh:
				v = a.Nullable[g.Body(e).ID]
			case Any, Choice:
				for _, k := range e.Kids {
					v = v || a.Nullable[k.ID]
				}
			case Seq:
				v = true
				for _, k := range e.Kids {
					v = v && a.Nullable[k.ID]
				}
			case Many1, SepBy1, SeqTry, SeqFOA, Memo, LTrim, RTrim, SupErr, Single:
				v = a.Nullable[e.Kids[0].ID]
			}
			if v {
				a.Nullable[e.ID] = true
				changed = true
			}
		}
	}

	// same-position edges
	a.RepsConsume = true
	for _, e := range nodes {
		switch e.K {
		case NT, Sh:
			a.Edges = append(a.Edges, Edge{e.ID, g.Body(e).ID, false})
		case Any:
			for _, k := range e.Kids {
				a.Edges = append(a.Edges, Edge{e.ID, k.ID, false})
			}
		case Choice:
			for i, k := range e.Kids {
				a.Edges = append(a.Edges, Edge{e.ID, k.ID, i < len(e.Kids)-1})
			}
		case Opt, Memo, SupErr, Single:
			a.Edges = append(a.Edges, Edge{e.ID, e.Kids[0].ID, false})
		case LTrim, RTrim:
			a.HasTrim = true
			a.Edges = append(a.Edges, Edge{e.ID, e.Kids[0].ID, false})
		case Seq, SeqTry, SeqFOA:
			_, lenCheck, _, _ := SeqSpec(e)
			for d, k := range e.Kids {
				a.Edges = append(a.Edges, Edge{e.ID, k.ID, lenCheck(d)})
				if !a.Nullable[k.ID] {
					break
				}
			}
		case Many, Many1, SepBy, SepBy1:
			_, lenCheck, _, _ := SeqSpec(e)
			for _, k := range e.Kids {
				if a.Nullable[k.ID] {
					a.RepsConsume = false
				}
			}
			// depth 0 is at the same position; deeper elements are at the same
			// position only if the operands are nullable (then RepsConsume is false
			// and the grammar is outside every property that uses the reference).
			a.Edges = append(a.Edges, Edge{e.ID, e.Kids[0].ID, lenCheck(0) || a.Nullable[e.Kids[0].ID]})
			if len(e.Kids) > 1 && a.Nullable[e.Kids[0].ID] {
				a.Edges = append(a.Edges, Edge{e.ID, e.Kids[1].ID, true})
			}
		}
	}

	// strongly connected components (Tarjan); components are emitted callee-first
	adj := make([][]int, n)
	for _, ed := range a.Edges {
		adj[ed.From] = append(adj[ed.From], ed.To)
	}
	index := make([]int, n)
	low := make([]int, n)
	on := make([]bool, n)
	for i := range index {
		index[i] = -1
	}
	a.SCC = make([]int, n)
	var stack []int
	counter := 0
	var strong func(v int)
	strong = func(v int) {
		index[v], low[v] = counter, counter
		counter++
		stack = append(stack, v)
		on[v] = true
		for _, w := range adj[v] {
			if index[w] < 0 {
				strong(w)
				if low[w] < low[v] {
					low[v] = low[w]
				}
			} else if on[w] && index[w] < low[v] {
				low[v] = index[w]
			}
		}
		if low[v] == index[v] {
			var comp []int
			for {
				w := stack[len(stack)-1]
				stack = stack[:len(stack)-1]
				on[w] = false
				a.SCC[w] = len(a.Order)
				comp = append(comp, w)
				if w == v {
					break
				}
			}
			a.Order = append(a.Order, comp)
		}
	}
	for v := 0; v < n; v++ {
		if index[v] < 0 {
			strong(v)
		}
	}
	a.inCycle = make([]bool, n)
	a.LeftRecFree = true
	for _, comp := range a.Order {
		if len(comp) > 1 {
			a.LeftRecFree = false
			for _, v := range comp {
				a.inCycle[v] = true
			}
		}
	}
	a.Stratified = true
	for _, ed := range a.Edges {
		if ed.From == ed.To {
			a.LeftRecFree = false
			a.inCycle[ed.From] = true
		}
		if ed.Negative && a.SCC[ed.From] == a.SCC[ed.To] {
			a.Stratified = false
		}
	}
	return a
}

// InCycle reports whether node id lies on a same-position cycle.
func (a *Analysis) InCycle(id int) bool { return a.inCycle[id] }

// LeftRecursive reports whether any memoized nonterminal body lies on a same-position cycle.
func (a *Analysis) LeftRecursive() bool { return !a.LeftRecFree }

// Admitted is the side condition of C01/C04/C06: a least-fixpoint meaning exists
// and repetitions consume input.
func (a *Analysis) Admitted() bool { return a.Stratified && a.RepsConsume }

// CyclesMemoized reports whether every same-position cycle passes through a
// memoization point (a nonterminal reference, a memoized shared sub-parser or an
// inline Memo): the properties only speak about grammars whose recursive
// nonterminals are wrapped in Memoize; an un-memoized left-recursive cycle
// recurses forever by construction.
func (a *Analysis) CyclesMemoized() bool {
	g := a.G
	nodes := g.Nodes()
	n := len(nodes)
	memo := make([]bool, n)
	for _, e := range nodes {
		switch e.K {
		case NT, Memo:
			memo[e.ID] = true
		case Sh:
			memo[e.ID] = e.Ref < len(g.SharedMemo) && g.SharedMemo[e.Ref]
		}
	}
	adj := make([][]int, n)
	for _, ed := range a.Edges {
		if !memo[ed.From] && !memo[ed.To] {
			adj[ed.From] = append(adj[ed.From], ed.To)
		}
	}
	state := make([]int8, n)
	var dfs func(v int) bool
	dfs = func(v int) bool {
		state[v] = 1
		for _, w := range adj[v] {
			if state[w] == 1 {
				return false
			}
			if state[w] == 0 && !dfs(w) {
				return false
			}
		}
		state[v] = 2
		return true
	}
	for v := 0; v < n; v++ {
		if state[v] == 0 && !memo[v] && !dfs(v) {
			return false
		}
	}
	return true
}
