// Package gram defines the grammar alphabet of the grammar x input explorer
// (GX): expression trees over parsley's combinators, an S-expression syntax for
// replay files, an enumerator by exact node count, and the static analysis that
// decides the side conditions the properties state (nullability, same-position
// call edges, stratification of non-monotone operators, left-recursion-freedom).
package gram

import (
	"fmt"
	"strconv"
	"strings"
)

// Kind of an expression node.
type Kind uint8

const (
	T      Kind = iota // single-byte terminal (terminal.Rune)
	Eps                // parser.Empty()
	NT                 // reference to memoized nonterminal N<Ref>
	Sh                 // reference to shared sub-parser S<Ref>
	Any                // combinator.Any
	Choice             // combinator.Choice
	Seq                // combinator.SeqOf
	Opt                // combinator.Optional
	Many               // combinator.Many
	Many1              // combinator.Many1
	SepBy              // combinator.SepBy(value, sep)
	SepBy1             // combinator.SepBy1(value, sep)
	SeqTry             // combinator.SeqTry
	SeqFOA             // combinator.SeqFirstOrAll
	Memo               // inline combinator.Memoize(kid)
	LTrim              // text.LeftTrim(kid, Mode)
	RTrim              // text.RightTrim(kid, Mode)
	End                // parser.End()
	SupErr             // combinator.SuppressError(kid)
	Single             // combinator.Single(kid)
	nKinds
)

var kindNames = [...]string{"t", "eps", "N", "S", "any", "choice", "seq", "opt", "many", "many1", "sepby", "sepby1", "seqtry", "seqfoa", "memo", "ltrim", "rtrim", "end", "suppress", "single"}

func (k Kind) String() string { return kindNames[k] }

// Expr is a node of a grammar expression tree.
type Expr struct {
	K    Kind
	Ch   byte // T
	Ref  int  // NT, Sh
	Mode int  // LTrim, RTrim: text.WsMode value
	Kids []*Expr
	ID   int // unique within a Grammar after Index()
}

// Grammar is a set of memoized nonterminals, optional shared sub-parsers and an
// optional root expression (default root: a reference to N0).
type Grammar struct {
	NTs        []*Expr
	Shared     []*Expr
	SharedMemo []bool // build S<i> as Memoize(body)
	Root       *Expr
	Named      bool // every Any/Choice carries .Name("alt<ID>")
	NamedSeq   bool // ... and every sequence-family combinator as well (Sequence.Name)
	nodes      []*Expr
}

// Leaf constructors and helpers.
func Term(c byte) *Expr              { return &Expr{K: T, Ch: c} }
func Epsilon() *Expr                 { return &Expr{K: Eps} }
func Ref(i int) *Expr                { return &Expr{K: NT, Ref: i} }
func Shared(i int) *Expr             { return &Expr{K: Sh, Ref: i} }
func Op(k Kind, kids ...*Expr) *Expr { return &Expr{K: k, Kids: kids} }

// Clone deep-copies an expression.
func (e *Expr) Clone() *Expr {
	c := *e
	c.Kids = make([]*Expr, len(e.Kids))
	for i, k := range e.Kids {
		c.Kids[i] = k.Clone()
	}
	return &c
}

// Size is the node count.
func (e *Expr) Size() int {
	n := 1
	for _, k := range e.Kids {
		n += k.Size()
	}
	return n
}

func (e *Expr) String() string {
	switch e.K {
	case T:
		if e.Ch == ' ' {
			return "_"
		}
		return string(e.Ch)
	case Eps:
		return "eps"
	case End:
		return "end"
	case NT:
		return "N" + strconv.Itoa(e.Ref)
	case Sh:
		return "S" + strconv.Itoa(e.Ref)
	}
	var sb strings.Builder
	sb.WriteByte('(')
	sb.WriteString(e.K.String())
	if e.K == LTrim || e.K == RTrim {
		sb.WriteString(strconv.Itoa(e.Mode))
	}
	for _, k := range e.Kids {
		sb.WriteByte(' ')
		sb.WriteString(k.String())
	}
	sb.WriteByte(')')
	return sb.String()
}

// String renders the grammar in the replay syntax.
func (g *Grammar) String() string {
	var parts []string
	for i, b := range g.NTs {
		parts = append(parts, fmt.Sprintf("N%d=%s", i, b))
	}
	for i, b := range g.Shared {
		m := ""
		if i < len(g.SharedMemo) && g.SharedMemo[i] {
			m = "!"
		}
		parts = append(parts, fmt.Sprintf("S%d%s=%s", i, m, b))
	}
	if g.Root != nil {
		parts = append(parts, "root="+g.Root.String())
	}
	if g.Named {
		parts = append(parts, "named")
	}
	if g.NamedSeq {
		parts = append(parts, "namedseq")
	}
	return strings.Join(parts, "; ")
}

// Parse reads the replay syntax back.
func Parse(s string) (*Grammar, error) {
	g := &Grammar{}
	for _, part := range strings.Split(s, ";") {
		part = strings.TrimSpace(part)
		if part == "" {
			continue
		}
		if part == "named" {
			g.Named = true
			continue
		}
		if part == "namedseq" {
			g.NamedSeq = true
			continue
		}
		eq := strings.IndexByte(part, '=')
		if eq < 0 {
			return nil, fmt.Errorf("bad grammar part %q", part)
		}
		name, body := strings.TrimSpace(part[:eq]), strings.TrimSpace(part[eq+1:])
		e, rest, err := parseExpr(body)
		if err != nil {
			return nil, err
		}
		if strings.TrimSpace(rest) != "" {
			return nil, fmt.Errorf("trailing input %q", rest)
		}
		switch {
		case name == "root":
			g.Root = e
		case strings.HasPrefix(name, "N"):
			g.NTs = append(g.NTs, e)
		case strings.HasPrefix(name, "S"):
			g.Shared = append(g.Shared, e)
			g.SharedMemo = append(g.SharedMemo, strings.HasSuffix(name, "!"))
		default:
			return nil, fmt.Errorf("bad name %q", name)
		}
	}
	g.Index()
	return g, nil
}

func parseExpr(s string) (*Expr, string, error) {
	s = strings.TrimLeft(s, " ")
	if s == "" {
		return nil, "", fmt.Errorf("unexpected end of expression")
	}
	if s[0] != '(' {
		i := 0
		for i < len(s) && s[i] != ' ' && s[i] != ')' {
			i++
		}
		tok, rest := s[:i], s[i:]
		switch {
		case tok == "eps":
			return Epsilon(), rest, nil
		case tok == "end":
			return &Expr{K: End}, rest, nil
		case tok == "_":
			return Term(' '), rest, nil
		case len(tok) >= 2 && (tok[0] == 'N' || tok[0] == 'S'):
			n, err := strconv.Atoi(tok[1:])
			if err != nil {
				return nil, "", fmt.Errorf("bad reference %q", tok)
			}
			if tok[0] == 'N' {
				return Ref(n), rest, nil
			}
			return Shared(n), rest, nil
		case len(tok) == 1:
			return Term(tok[0]), rest, nil
		}
		return nil, "", fmt.Errorf("bad token %q", tok)
	}
	s = s[1:]
	i := 0
	for i < len(s) && s[i] != ' ' && s[i] != ')' {
		i++
	}
	op := s[:i]
	s = s[i:]
	e := &Expr{}
	found := false
	for k := Kind(0); k < nKinds; k++ {
		name := kindNames[k]
		if op == name {
			e.K, found = k, true
		} else if (k == LTrim || k == RTrim) && strings.HasPrefix(op, name) && len(op) == len(name)+1 {
			e.K, found = k, true
			e.Mode = int(op[len(name)] - '0')
		}
	}
	if !found {
		return nil, "", fmt.Errorf("unknown operator %q", op)
	}
	for {
		s = strings.TrimLeft(s, " ")
		if s == "" {
			return nil, "", fmt.Errorf("missing )")
		}
		if s[0] == ')' {
			return e, s[1:], nil
		}
		k, rest, err := parseExpr(s)
		if err != nil {
			return nil, "", err
		}
		e.Kids = append(e.Kids, k)
		s = rest
	}
}

// Index assigns IDs (pre-order over N0.., S0.., root) and returns all nodes.
func (g *Grammar) Index() []*Expr {
	g.nodes = g.nodes[:0]
	var walk func(e *Expr)
	walk = func(e *Expr) {
		e.ID = len(g.nodes)
		g.nodes = append(g.nodes, e)
		for _, k := range e.Kids {
			walk(k)
		}
	}
	for _, b := range g.NTs {
		walk(b)
	}
	for _, b := range g.Shared {
		walk(b)
	}
	if g.Root != nil {
		walk(g.Root)
	}
	return g.nodes
}

// Nodes returns the indexed nodes.
func (g *Grammar) Nodes() []*Expr {
	if g.nodes == nil {
		g.Index()
	}
	return g.nodes
}

// Body resolves a reference node to the body it denotes; other nodes are returned unchanged.
func (g *Grammar) Body(e *Expr) *Expr {
	switch e.K {
	case NT:
		return g.NTs[e.Ref]
	case Sh:
		return g.Shared[e.Ref]
	}
	return e
}

// Size is the total node count of the grammar.
func (g *Grammar) Size() int { return len(g.Nodes()) }

// SeqSpec describes the sequence family member e: the parser looked up at depth
// d (nil beyond the end) and the lenCheck predicate, exactly as the constructors
// in combinator/seq.go, many.go and sep_by.go define them.
func SeqSpec(e *Expr) (lookup func(d int) *Expr, lenCheck func(d int) bool, token string, ok bool) {
	l := len(e.Kids)
	fixed := func(d int) *Expr {
		if d < l {
			return e.Kids[d]
		}
		return nil
	}
	switch e.K {
	case Seq:
		return fixed, func(d int) bool { return d == l }, "SEQ", true
	case SeqTry:
		return fixed, func(d int) bool { return d > 0 && d <= l }, "SEQ", true
	case SeqFOA:
		return fixed, func(d int) bool { return d == 1 || d == l }, "SEQ", true
	case Many:
		return func(int) *Expr { return e.Kids[0] }, func(int) bool { return true }, "MANY", true
	case Many1:
		return func(int) *Expr { return e.Kids[0] }, func(d int) bool { return d > 0 }, "MANY", true
	case SepBy, SepBy1:
		allowEmpty := e.K == SepBy
		return func(d int) *Expr { return e.Kids[d%2] },
			func(d int) bool { return (d == 0 && allowEmpty) || d%2 == 1 }, "SEP_BY", true
	}
	return nil, nil, "", false
}

// IsRepetition reports whether e is Many/Many1/SepBy/SepBy1.
func (e *Expr) IsRepetition() bool {
	return e.K == Many || e.K == Many1 || e.K == SepBy || e.K == SepBy1
}

// FirstTerminal returns the first terminal byte in pre-order, or 0.
func (g *Grammar) FirstTerminal() byte {
	for _, e := range g.Nodes() {
		if e.K == T && e.Ch != ' ' {
			return e.Ch
		}
	}
	return 0
}
