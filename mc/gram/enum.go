package gram

// Alphabet is the set of constructors an enumeration ranges over.
type Alphabet struct {
	Name      string
	Terminals []byte
	Eps       bool
	End       bool // parser.End() as a leaf
	Unary     []Kind
	Binary    []Kind
	Ternary   []Kind
	TrimModes []int // modes for LTrim/RTrim when they are in Unary
}

// Full is the complete combinator alphabet of DESIGN.md 3.1.
var Full = Alphabet{
	Name: "full", Terminals: []byte{'a', 'b'}, Eps: true,
	Unary:   []Kind{Seq, Opt, Many, Many1},
	Binary:  []Kind{Any, Choice, Seq, SepBy, SepBy1, SeqTry},
	Ternary: []Kind{Any, Seq, SeqTry, SeqFOA},
}

// Core reaches larger sizes with {T, eps, N, Any2/3, SeqOf2/3, Optional}.
var Core = Alphabet{
	Name: "core", Terminals: []byte{'a', 'b'}, Eps: true,
	Unary:   []Kind{Opt},
	Binary:  []Kind{Any, Seq},
	Ternary: []Kind{Any, Seq},
}

// Core1 is Core over the single terminal a (inputs a^n): it reaches the sizes at which
// two-nonterminal hidden-left-recursion interactions first appear.
var Core1 = Alphabet{
	Name: "core1", Terminals: []byte{'a'}, Eps: true,
	Unary:   []Kind{Opt},
	Binary:  []Kind{Any, Seq},
	Ternary: []Kind{Any, Seq},
}

// Rep is the alphabet of repetitions and one-element sequences over ambiguous elements: the combinators that
// emit a result from a PREFIX of their scratch buffer (a one-child result, a shorter path) while further
// alternatives of the same element are still to be tried.
var Rep = Alphabet{
	Name: "rep", Terminals: []byte{'a', 'b'},
	Unary:  []Kind{Seq, Many, Many1, Opt},
	Binary: []Kind{Any, Seq, SepBy1, SeqTry},
}

// With returns a copy of the alphabet with extra unary operators.
func (a Alphabet) With(name string, unary ...Kind) Alphabet {
	b := a
	b.Name = name
	b.Unary = append(append([]Kind{}, a.Unary...), unary...)
	return b
}

// Space is one enumerated grammar space: nNT memoized nonterminals, nSh shared
// sub-parsers and (optionally) a separate root expression, all components
// together having exactly `total` nodes for each total in [Min, Max].
type Space struct {
	Name     string
	Alpha    Alphabet
	NNT, NSh int
	HasRoot  bool
	Min, Max int
	// FixedShared are shared sub-parser bodies attached to EVERY grammar of the space (not
	// enumerated, not counted in the size); they are numbered after the NSh enumerated ones.
	FixedShared     []*Expr
	FixedSharedMemo []bool
	cache           map[int][]*Expr
}

func (sp *Space) leaves() []*Expr {
	var l []*Expr
	for _, c := range sp.Alpha.Terminals {
		l = append(l, Term(c))
	}
	if sp.Alpha.Eps {
		l = append(l, Epsilon())
	}
	if sp.Alpha.End {
		l = append(l, &Expr{K: End})
	}
	for i := 0; i < sp.NNT; i++ {
		l = append(l, Ref(i))
	}
	for i := 0; i < sp.NSh+len(sp.FixedShared); i++ {
		l = append(l, Shared(i))
	}
	return l
}

// BySize returns all expression templates with exactly n nodes (sub-trees are
// shared between templates; Clone before use in a Grammar).
func (sp *Space) BySize(n int) []*Expr {
	if sp.cache == nil {
		sp.cache = map[int][]*Expr{}
	}
	if l, ok := sp.cache[n]; ok {
		return l
	}
	var out []*Expr
	if n == 1 {
		out = sp.leaves()
	} else if n >= 2 {
		for _, k := range sp.Alpha.Unary {
			for _, x := range sp.BySize(n - 1) {
				if k == LTrim || k == RTrim {
					for _, m := range sp.Alpha.TrimModes {
						out = append(out, &Expr{K: k, Mode: m, Kids: []*Expr{x}})
					}
				} else {
					out = append(out, &Expr{K: k, Kids: []*Expr{x}})
				}
			}
		}
		for _, k := range sp.Alpha.Binary {
			for i := 1; i <= n-2; i++ {
				for _, x := range sp.BySize(i) {
					for _, y := range sp.BySize(n - 1 - i) {
						out = append(out, &Expr{K: k, Kids: []*Expr{x, y}})
					}
				}
			}
		}
		for _, k := range sp.Alpha.Ternary {
			for i := 1; i <= n-3; i++ {
				for j := 1; i+j <= n-2; j++ {
					for _, x := range sp.BySize(i) {
						for _, y := range sp.BySize(j) {
							for _, z := range sp.BySize(n - 1 - i - j) {
								out = append(out, &Expr{K: k, Kids: []*Expr{x, y, z}})
							}
						}
					}
				}
			}
		}
	}
	sp.cache[n] = out
	return out
}

// Each enumerates the grammars of the space by exact total size, smallest
// first. Only grammars in which every nonterminal and shared sub-parser is
// reachable from the start component are produced. idx numbers the produced
// grammars consecutively (used for sharding). f may keep g.
func (sp *Space) Each(f func(idx int64, g *Grammar)) {
	parts := sp.NNT + sp.NSh
	if sp.HasRoot {
		parts++
	}
	var idx int64
	comp := make([]*Expr, parts)
	for total := sp.Min; total <= sp.Max; total++ {
		var rec func(p, left int)
		rec = func(p, left int) {
			if p == parts-1 {
				for _, e := range sp.BySize(left) {
					comp[p] = e
					g := sp.assemble(comp)
					if g != nil {
						f(idx, g)
						idx++
					}
				}
				return
			}
			for s := 1; s <= left-(parts-1-p); s++ {
				for _, e := range sp.BySize(s) {
					comp[p] = e
					rec(p+1, left-s)
				}
			}
		}
		if total >= parts {
			rec(0, total)
		}
	}
}

func (sp *Space) assemble(comp []*Expr) *Grammar {
	// reachability on templates first (cheap), clone only when accepted
	nts := comp[:sp.NNT]
	shs := append(append([]*Expr{}, comp[sp.NNT:sp.NNT+sp.NSh]...), sp.FixedShared...)
	var root *Expr
	if sp.HasRoot {
		root = comp[len(comp)-1]
	}
	seenN := make([]bool, sp.NNT)
	seenS := make([]bool, len(shs))
	var visit func(e *Expr)
	visit = func(e *Expr) {
		switch e.K {
		case NT:
			if !seenN[e.Ref] {
				seenN[e.Ref] = true
				visit(nts[e.Ref])
			}
		case Sh:
			if !seenS[e.Ref] {
				seenS[e.Ref] = true
				visit(shs[e.Ref])
			}
		}
		for _, k := range e.Kids {
			visit(k)
		}
	}
	if root != nil {
		visit(root)
	} else {
		seenN[0] = true
		visit(nts[0])
	}
	for _, s := range seenN {
		if !s {
			return nil
		}
	}
	for _, s := range seenS {
		if !s {
			return nil
		}
	}
	g := &Grammar{}
	for _, b := range nts {
		g.NTs = append(g.NTs, b.Clone())
	}
	for i, b := range shs {
		g.Shared = append(g.Shared, b.Clone())
		fixed := i - sp.NSh
		g.SharedMemo = append(g.SharedMemo, fixed >= 0 && fixed < len(sp.FixedSharedMemo) && sp.FixedSharedMemo[fixed])
	}
	if root != nil {
		g.Root = root.Clone()
	}
	g.Index()
	return g
}

// Count returns the number of grammars Each would produce.
func (sp *Space) Count() int64 {
	var n int64
	sp.Each(func(int64, *Grammar) { n++ })
	return n
}

// Inputs returns every string over alpha of length 0..maxLen, shortest first.
func Inputs(alpha []byte, maxLen int) [][]byte {
	out := [][]byte{{}}
	prev := [][]byte{{}}
	for l := 1; l <= maxLen; l++ {
		var cur [][]byte
		for _, p := range prev {
			for _, c := range alpha {
				w := append(append([]byte{}, p...), c)
				cur = append(cur, w)
			}
		}
		out = append(out, cur...)
		prev = cur
	}
	return out
}
