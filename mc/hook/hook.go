// Package hook owns parsley.VerifHook (present only under the build tag "verif"): it is called at every
// Context.RegisterCall. Two users: the cooperative scheduler of C14 (a scheduling point) and the work cap of
// C17 (abort a parse whose call count exceeds a budget instead of waiting for an exponential run to finish).
package hook

import "github.com/opsidian/parsley/parsley"

// Yield, when non-nil, is called at every hook invocation (C14's scheduler).
var Yield func()

// BudgetExceeded is the panic value used to unwind a parse that ran out of budget.
type BudgetExceeded struct{ Limit int64 }

var remaining int64 = -1
var limit int64

// SetBudget arms a cap on the number of RegisterCall invocations (<=0 disarms). Not goroutine-safe: only
// used by single-threaded checks.
func SetBudget(n int64) {
	limit = n
	if n <= 0 {
		remaining = -1
		return
	}
	remaining = n
}

func init() {
	parsley.VerifHook = func() {
		if Yield != nil {
			Yield()
		}
		if remaining >= 0 {
			if remaining == 0 {
				remaining = -1
				panic(BudgetExceeded{limit})
			}
			remaining--
		}
	}
}
