// Package ref is the reference (denotational) semantics of the grammar
// alphabet: for an input w it fills, for every expression e and position i, the
// set of results e derives from i — as end positions (a finite lattice, always
// terminates) and optionally as canonical trees (capped; overflow means
// "infinitely many / too many trees"). Positions are processed from n down to 0;
// at one position the strongly connected components of the same-position call
// graph are processed callees first and iterated to their least fixpoint. It is
// only meaningful for grammars gram.Analysis admits (stratified).
package ref

import (
	"sort"
	"strconv"
	"strings"

	"verif/mc/gram"
)

// TreeCap bounds the number of trees kept per (expression, position).
const TreeCap = 300

// Tree is a canonical rendering of one derivation with its end position.
type Tree struct {
	S   string
	End int
}

// Table is the filled reference table for one grammar and one input.
type Table struct {
	G     *gram.Grammar
	A     *gram.Analysis
	W     []byte
	N     int
	Ends  [][]uint64 // [node][pos] bitmask of end positions
	Trees [][][]Tree // [node][pos], nil when trees were not requested
	Over  [][]bool   // [node][pos]: tree set overflowed (or depends on one that did)
}

// Span renders a span the way both sides of the comparison do.
func Span(i, j int) string { return "<" + strconv.Itoa(i) + "," + strconv.Itoa(j) + ">" }

// Compute fills the table. withTrees also fills the tree sets.
func Compute(g *gram.Grammar, a *gram.Analysis, w []byte, withTrees bool) *Table {
	nodes := g.Nodes()
	n := len(w)
	t := &Table{G: g, A: a, W: w, N: n}
	t.Ends = make([][]uint64, len(nodes))
	for i := range t.Ends {
		t.Ends[i] = make([]uint64, n+1)
	}
	if withTrees {
		t.Trees = make([][][]Tree, len(nodes))
		t.Over = make([][]bool, len(nodes))
		for i := range t.Trees {
			t.Trees[i] = make([][]Tree, n+1)
			t.Over[i] = make([]bool, n+1)
		}
	}
	for pos := n; pos >= 0; pos-- {
		for _, comp := range a.Order {
			rounds := 0
			for changed := true; changed; {
				changed = false
				rounds++
				for _, id := range comp {
					e := nodes[id]
					ne := t.evalEnds(e, pos) | t.Ends[id][pos]
					if ne != t.Ends[id][pos] {
						t.Ends[id][pos] = ne
						changed = true
					}
				}
				if len(comp) == 1 && !a.InCycle(comp[0]) {
					break
				}
			}
			if withTrees {
				rounds = 0
				for changed := true; changed; {
					changed = false
					rounds++
					for _, id := range comp {
						if t.Over[id][pos] {
							continue
						}
						e := nodes[id]
						nt, over := t.evalTrees(e, pos)
						if over {
							t.Over[id][pos] = true
							t.Trees[id][pos] = nil
							changed = true
							continue
						}
						if len(nt) != len(t.Trees[id][pos]) {
							t.Trees[id][pos] = nt
							changed = true
						}
					}
					if len(comp) == 1 && !a.InCycle(comp[0]) {
						break
					}
					if rounds > 4*n+50 {
						for _, id := range comp {
							t.Over[id][pos] = true
							t.Trees[id][pos] = nil
						}
						break
					}
				}
			}
		}
	}
	return t
}

func (t *Table) evalEnds(e *gram.Expr, pos int) uint64 {
	switch e.K {
	case gram.T:
		if pos < t.N && t.W[pos] == e.Ch {
			return 1 << uint(pos+1)
		}
		return 0
	case gram.Eps:
		return 1 << uint(pos)
	case gram.End:
		if pos >= t.N {
			return 1 << uint(pos)
		}
		return 0
	case gram.NT, gram.Sh:
		return t.Ends[t.G.Body(e).ID][pos]
	case gram.LTrim:
		// text.LeftTrim: the maximal run of blanks at pos is skipped when it satisfies the mode, the operand then parses
		// from its end (only the never-failing mode 2 is admitted for the acceptance oracle, see gx/c04.go)
		if r, ok := t.skipRun(pos, e.Mode); ok {
			return t.Ends[e.Kids[0].ID][r]
		}
		return 0
	case gram.Memo, gram.SupErr, gram.Single:
		// SuppressError changes no result; Single replaces a one-child node by that child (same span): the END
		// positions are the operand's in both cases
		return t.Ends[e.Kids[0].ID][pos]
	case gram.Any:
		var r uint64
		for _, k := range e.Kids {
			r |= t.Ends[k.ID][pos]
		}
		return r
	case gram.Choice:
		for _, k := range e.Kids {
			if r := t.Ends[k.ID][pos]; r != 0 {
				return r
			}
		}
		return 0
	case gram.Opt:
		return t.Ends[e.Kids[0].ID][pos] | 1<<uint(pos)
	}
	lookup, lenCheck, _, ok := gram.SeqSpec(e)
	if !ok {
		return 0
	}
	// reachability over (canonical depth, position)
	var result uint64
	type st struct{ d, p int }
	seen := map[st]bool{}
	var walk func(d, p int)
	walk = func(d, p int) {
		cd := canonDepth(e, d)
		if seen[st{cd, p}] {
			return
		}
		seen[st{cd, p}] = true
		var r uint64
		if k := lookup(d); k != nil {
			r = t.Ends[k.ID][p]
		}
		if r == 0 {
			if lenCheck(d) {
				result |= 1 << uint(p)
			}
			return
		}
		for q := p; q <= t.N; q++ {
			if r&(1<<uint(q)) != 0 {
				walk(d+1, q)
			}
		}
	}
	walk(0, pos)
	return result
}

// skipRun returns the end of the maximal run of space, tab, line feed, form feed at pos and whether the run satisfies
// the whitespace mode (0 none, 1 spaces, 2 spaces and new lines, 3 a new line is required).
func (t *Table) skipRun(pos, mode int) (int, bool) {
	r, nl := pos, false
	for r < t.N && (t.W[r] == ' ' || t.W[r] == '\t' || t.W[r] == '\n' || t.W[r] == '\f') {
		nl = nl || t.W[r] == '\n' || t.W[r] == '\f'
		r++
	}
	switch mode {
	case 0:
		return r, r == pos
	case 1:
		return r, !nl
	case 3:
		return r, nl
	}
	return r, true
}

// canonDepth folds the unbounded depth of repetitions into the finitely many
// depths that lookup/lenCheck can distinguish.
func canonDepth(e *gram.Expr, d int) int {
	switch e.K {
	case gram.Many, gram.Many1:
		if d > 1 {
			return 1
		}
	case gram.SepBy, gram.SepBy1:
		if d > 2 {
			return 1 + (d-1)%2
		}
	}
	return d
}

func (t *Table) evalTrees(e *gram.Expr, pos int) ([]Tree, bool) {
	switch e.K {
	case gram.T:
		if pos < t.N && t.W[pos] == e.Ch {
			return []Tree{{string(e.Ch) + Span(pos, pos+1), pos + 1}}, false
		}
		return nil, false
	case gram.Eps:
		return []Tree{{"e" + Span(pos, pos), pos}}, false
	case gram.End:
		if pos >= t.N {
			return []Tree{{"EOF" + Span(pos, pos), pos}}, false
		}
		return nil, false
	case gram.NT, gram.Sh:
		id := t.G.Body(e).ID
		return t.Trees[id][pos], t.Over[id][pos]
	case gram.LTrim:
		id := e.Kids[0].ID
		if r, ok := t.skipRun(pos, e.Mode); ok {
			return t.Trees[id][r], t.Over[id][r]
		}
		return nil, false
	case gram.Memo, gram.SupErr:
		id := e.Kids[0].ID
		return t.Trees[id][pos], t.Over[id][pos]
	case gram.Single:
		return nil, true // trees are rewritten by Single: only end positions are modelled
	case gram.Any:
		var sets [][]Tree
		for _, k := range e.Kids {
			if t.Over[k.ID][pos] {
				return nil, true
			}
			sets = append(sets, t.Trees[k.ID][pos])
		}
		return union(sets...)
	case gram.Choice:
		for _, k := range e.Kids {
			if t.Over[k.ID][pos] {
				return nil, true
			}
			if r := t.Trees[k.ID][pos]; len(r) > 0 {
				return r, false
			}
			if t.Ends[k.ID][pos] != 0 {
				// ends say non-empty but trees not yet filled (inside a cycle): wait
				return nil, false
			}
		}
		return nil, false
	case gram.Opt:
		k := e.Kids[0]
		if t.Over[k.ID][pos] {
			return nil, true
		}
		return union(t.Trees[k.ID][pos], []Tree{{"e" + Span(pos, pos), pos}})
	}
	lookup, lenCheck, token, ok := gram.SeqSpec(e)
	if !ok {
		return nil, false
	}
	var out []Tree
	seen := map[string]bool{}
	over := false
	var kids []string
	var walk func(d, p int)
	walk = func(d, p int) {
		if over {
			return
		}
		if d > 3*t.N+8 { // only reachable with nullable repetition operands (not admitted)
			over = true
			return
		}
		var r []Tree
		if k := lookup(d); k != nil {
			if t.Over[k.ID][p] {
				over = true
				return
			}
			r = t.Trees[k.ID][p]
			if len(r) == 0 && t.Ends[k.ID][p] != 0 {
				// the operand has results whose trees are not filled in yet (same
				// component, earlier round): emit nothing on this path for now
				return
			}
		}
		if len(r) == 0 {
			if lenCheck(d) {
				s := token + "(" + strings.Join(kids, " ") + ")" + Span(pos, p)
				if !seen[s] {
					seen[s] = true
					out = append(out, Tree{s, p})
					if len(out) > TreeCap {
						over = true
					}
				}
			}
			return
		}
		for _, tr := range r {
			kids = append(kids, tr.S)
			walk(d+1, tr.End)
			kids = kids[:len(kids)-1]
			if over {
				return
			}
		}
	}
	walk(0, pos)
	if over {
		return nil, true
	}
	return out, false
}

func union(sets ...[]Tree) ([]Tree, bool) {
	total := 0
	for _, s := range sets {
		total += len(s)
	}
	if total == 0 {
		return nil, false
	}
	seen := make(map[string]bool, total)
	out := make([]Tree, 0, total)
	for _, s := range sets {
		for _, tr := range s {
			if !seen[tr.S] {
				seen[tr.S] = true
				out = append(out, tr)
			}
		}
	}
	if len(out) > TreeCap {
		return nil, true
	}
	return out, false
}

// EndSet lists the end positions of node id at pos.
func (t *Table) EndSet(id, pos int) []int {
	var out []int
	for q := 0; q <= t.N; q++ {
		if t.Ends[id][pos]&(1<<uint(q)) != 0 {
			out = append(out, q)
		}
	}
	return out
}

// TreeStrings returns the sorted canonical trees of node id at pos.
func (t *Table) TreeStrings(id, pos int) []string {
	var out []string
	for _, tr := range t.Trees[id][pos] {
		out = append(out, tr.S)
	}
	sort.Strings(out)
	return out
}
