// Package explore is the shared driver of every check: it shards a bounded,
// exhaustively enumerated case space over worker processes, merges what they
// counted, applies the known-findings file, re-executes violations from their
// replay files, and writes the evidence file.
package explore

import (
	"bytes"
	"encoding/json"
	"fmt"
	"os"
	"os/exec"
	"path/filepath"
	"runtime"
	"sort"
	"strconv"
	"strings"
	"sync"
	"syscall"
	"time"
)

// VerifDir is where evidence, replays and the known-findings file live.
var VerifDir = func() string {
	if d := os.Getenv("VERIF_DIR"); d != "" {
		return d
	}
	return "/verif"
}()

// Env describes the slice of the case space one worker explores.
type Env struct {
	Tier    string // quick | thorough
	Shard   int
	NShards int
	Seed    int64
}

// Mine reports whether case number idx belongs to this worker's shard.
func (e *Env) Mine(idx int64) bool {
	return int((idx+e.Seed)%int64(e.NShards)) == e.Shard
}

// Thorough is true in the thorough tier.
func (e *Env) Thorough() bool { return e.Tier == "thorough" }

// Violation is one failing case. Key is a structural description of *what*
// failed (used to match known findings); Case is the replayable case itself.
type Violation struct {
	Key  string          `json:"key"`
	What string          `json:"what"`
	Case json.RawMessage `json:"case"`
}

// Result is what a worker (or a replay) reports.
type Result struct {
	Counters       map[string]int64    `json:"counters"`
	Samples        []any               `json:"samples,omitempty"`
	Violations     []Violation         `json:"violations,omitempty"`
	ViolationCount int64               `json:"violation_count"`
	Incomplete     []string            `json:"incomplete,omitempty"`
	Notes          []string            `json:"notes,omitempty"`
	Outcomes       map[string]int64    `json:"outcomes,omitempty"` // distinct observed outcomes (bounded)
	KeyCounts      map[string]int64    `json:"key_counts,omitempty"`
	KeyGrammars    map[string][]string `json:"key_examples,omitempty"`
}

const maxViolationsKept = 25
const maxSamples = 6

// NewResult makes an empty result.
func NewResult() *Result {
	return &Result{Counters: map[string]int64{}, Outcomes: map[string]int64{}, KeyCounts: map[string]int64{}, KeyGrammars: map[string][]string{}}
}

// Add increments a counter.
func (r *Result) Add(name string, n int64) { r.Counters[name] += n }

// Max keeps the maximum of a counter.
func (r *Result) Max(name string, n int64) {
	if n > r.Counters[name] {
		r.Counters[name] = n
	}
}

// Outcome counts a distinct observed outcome class (kept small).
func (r *Result) Outcome(s string) {
	if len(r.Outcomes) < 4096 || r.Outcomes[s] > 0 {
		r.Outcomes[s]++
	}
}

// Sample records a written-out case (first few only).
func (r *Result) Sample(v any) {
	if len(r.Samples) < maxSamples {
		r.Samples = append(r.Samples, v)
	}
}

// Violate records a violation.
func (r *Result) Violate(key, what string, c any) {
	r.ViolationCount++
	r.KeyCounts[key]++
	if len(r.KeyGrammars[key]) < 40 {
		w := what
		if len(w) > 400 {
			w = w[:400] + "…"
		}
		r.KeyGrammars[key] = append(r.KeyGrammars[key], w)
	}
	if len(r.Violations) >= maxViolationsKept {
		// keep one per distinct key beyond the cap
		for _, v := range r.Violations {
			if v.Key == key {
				return
			}
		}
		if len(r.Violations) >= 4*maxViolationsKept {
			return
		}
	}
	if len(what) > 900 {
		what = what[:600] + " …[" + strconv.Itoa(len(what)-800) + " bytes elided]… " + what[len(what)-200:]
	}
	raw, err := json.Marshal(c)
	if err != nil {
		raw = []byte(strconv.Quote(fmt.Sprint(c)))
	}
	r.Violations = append(r.Violations, Violation{Key: key, What: what, Case: raw})
}

// Flush prints the result so far as a RESULT line: if the worker dies later (a fatal runtime error cannot be
// recovered), the driver still has everything found up to here (the last RESULT line of a worker wins).
func (r *Result) Flush() {
	if out, err := json.Marshal(r); err == nil {
		os.Stdout.Write(append([]byte("RESULT "), append(out, '\n')...))
	}
}

// Undecided marks the run as not exhaustive for a stated reason.
func (r *Result) Undecided(reason string) {
	r.Add("undecided", 1)
	for _, s := range r.Incomplete {
		if s == reason {
			return
		}
	}
	if len(r.Incomplete) < 20 {
		r.Incomplete = append(r.Incomplete, reason)
	}
}

func (r *Result) merge(o *Result) {
	for k, v := range o.Counters {
		if strings.HasPrefix(k, "max_") {
			r.Max(k, v)
		} else {
			r.Counters[k] += v
		}
	}
	for _, s := range o.Samples {
		r.Sample(s)
	}
	for k, v := range o.Outcomes {
		if len(r.Outcomes) < 4096 || r.Outcomes[k] > 0 {
			r.Outcomes[k] += v
		}
	}
	r.ViolationCount += o.ViolationCount
	for k, v := range o.KeyCounts {
		r.KeyCounts[k] += v
	}
	for k, v := range o.KeyGrammars {
		for _, x := range v {
			if len(r.KeyGrammars[k]) < 200 {
				r.KeyGrammars[k] = append(r.KeyGrammars[k], x)
			}
		}
	}
	r.Violations = append(r.Violations, o.Violations...)
	for _, s := range o.Incomplete {
		dup := false
		for _, t := range r.Incomplete {
			dup = dup || s == t
		}
		if !dup {
			r.Incomplete = append(r.Incomplete, s)
		}
	}
	for _, s := range o.Notes {
		dup := false
		for _, t := range r.Notes {
			dup = dup || s == t
		}
		if !dup && len(r.Notes) < 40 {
			r.Notes = append(r.Notes, s)
		}
	}
}

// Check is one registered property check.
type Check struct {
	ID     string
	Level  string // evidence level
	Rule   string // how cases are enumerated and what counts as non-trivial
	Assume []string
	// Shards returns how many worker processes to use for a tier (0 = NumCPU).
	Shards func(tier string) int
	// Run explores this worker's shard.
	Run func(env *Env) *Result
	// Replay re-executes one case and reports violations found in it.
	Replay func(raw json.RawMessage) *Result
	// Finish runs in the driver after merging (non-vacuity conditions, derived counters).
	Finish func(tier string, merged *Result)
	// CrashIsViolation: a worker that dies of memory exhaustion is a violation of this property too (a stack overflow
	// inside a parse is one for every check), reported with the shard as the case.
	CrashIsViolation bool
	// Bounds describes the bound explored per tier (goes into the evidence).
	Bounds func(tier string) map[string]any
}

var registry = map[string]*Check{}

// Register adds a check.
func Register(c *Check) { registry[c.ID] = c }

// Lookup finds a check.
func Lookup(id string) *Check { return registry[id] }

// IDs lists the registered checks.
func IDs() []string {
	var ids []string
	for id := range registry {
		ids = append(ids, id)
	}
	sort.Strings(ids)
	return ids
}

// KnownFinding is one entry of known_findings.json.
type KnownFinding struct {
	Property string `json:"property"`
	Status   string `json:"status"` // known | fixed
	Key      string `json:"key"`
	Commit   string `json:"commit,omitempty"`
	What     string `json:"what"`
}

func loadKnown() []KnownFinding {
	b, err := os.ReadFile(filepath.Join(VerifDir, "known_findings.json"))
	if err != nil {
		return nil
	}
	var k struct {
		Findings []KnownFinding `json:"findings"`
	}
	if json.Unmarshal(b, &k) != nil {
		fmt.Fprintln(os.Stderr, "warning: known_findings.json does not parse; ignoring it")
		return nil
	}
	return k.Findings
}

type replayFile struct {
	Property string          `json:"property"`
	Key      string          `json:"key"`
	What     string          `json:"what"`
	Case     json.RawMessage `json:"case"`
}

// WorkerMain runs one shard and prints the result as one JSON line.
func WorkerMain(id, tier string, shard, nshards int, seed int64) int {
	c := Lookup(id)
	if c == nil {
		fmt.Fprintln(os.Stderr, "unknown check", id)
		return 2
	}
	// Address-space limit: a runaway case must kill this worker, not the sandbox.
	lim := uint64(12 << 30)
	_ = syscall.Setrlimit(syscall.RLIMIT_AS, &syscall.Rlimit{Cur: lim, Max: lim})
	res := c.Run(&Env{Tier: tier, Shard: shard, NShards: nshards, Seed: seed})
	out, err := json.Marshal(res)
	if err != nil {
		fmt.Fprintln(os.Stderr, "marshal:", err)
		return 2
	}
	os.Stdout.Write(append([]byte("RESULT "), append(out, '\n')...))
	return 0
}

// ReplayMain re-executes a replay file; exit 1 (and a VIOLATION line) if it still fails.
func ReplayMain(path string) int {
	b, err := os.ReadFile(path)
	if err != nil {
		fmt.Fprintln(os.Stderr, err)
		return 2
	}
	var rf replayFile
	if err := json.Unmarshal(b, &rf); err != nil {
		fmt.Fprintln(os.Stderr, "bad replay file:", err)
		return 2
	}
	c := Lookup(rf.Property)
	if c == nil || c.Replay == nil {
		fmt.Fprintln(os.Stderr, "no replay for", rf.Property)
		return 2
	}
	res := replayCrash(rf.Property, rf.Case)
	if res == nil {
		res = c.Replay(rf.Case)
	}
	for _, n := range res.Notes {
		fmt.Println(n)
	}
	if res.ViolationCount == 0 {
		fmt.Printf("replay: property=%s holds on this case\n", rf.Property)
		return 0
	}
	for _, v := range res.Violations {
		fmt.Printf("replay: key=%s\n  %s\n", v.Key, v.What)
	}
	fmt.Printf("VIOLATION property=%s replay=%s\n", rf.Property, path)
	return 1
}

// replayCrash handles the case form {"crashed_shard": ...}: it re-runs that worker; the case reproduces if the worker
// dies of a fatal runtime error again. Returns nil for every other case form.
func replayCrash(id string, raw json.RawMessage) *Result {
	var crash struct {
		Shard  *int   `json:"crashed_shard"`
		Shards int    `json:"shards"`
		Tier   string `json:"tier"`
		Seed   int64  `json:"seed"`
	}
	if json.Unmarshal(raw, &crash) != nil || crash.Shard == nil {
		return nil
	}
	res := NewResult()
	self, _ := os.Executable()
	cmd := exec.Command(self, "worker", id, crash.Tier, fmt.Sprint(*crash.Shard), fmt.Sprint(crash.Shards), fmt.Sprint(crash.Seed))
	cmd.Env = append(os.Environ(), "GOMAXPROCS=1", "GOTRACEBACK=single")
	out, err := cmd.CombinedOutput()
	if err != nil && (bytes.Contains(out, []byte("fatal error")) || bytes.Contains(out, []byte("out of memory")) || bytes.Contains(out, []byte("goroutine stack exceeds"))) {
		res.Violate("worker-crash", "the worker died of a fatal runtime error again", raw)
	}
	return res
}

func seedFromEnv() int64 {
	if s := os.Getenv("VERIF_SEED"); s != "" {
		if v, err := strconv.ParseInt(s, 10, 64); err == nil {
			if v < 0 {
				v = -v
			}
			return v
		}
	}
	return 0
}

// CheckMain is the driver: run all shards, merge, judge, write evidence.
func CheckMain(id, tier string) int {
	c := Lookup(id)
	if c == nil {
		fmt.Fprintln(os.Stderr, "unknown check", id)
		return 2
	}
	start := time.Now()
	seed := seedFromEnv()
	n := 0
	if c.Shards != nil {
		n = c.Shards(tier)
	}
	if n <= 0 {
		// more shards than cores, run NumCPU at a time: heavy cases cluster, small shards balance the load
		n = 4 * runtime.NumCPU()
	}
	sem := make(chan struct{}, runtime.NumCPU())
	self, _ := os.Executable()
	merged := NewResult()
	var mu sync.Mutex
	var wg sync.WaitGroup
	killAfter := 45 * time.Minute
	if tier == "thorough" {
		killAfter = 6 * time.Hour
	}
	for s := 0; s < n; s++ {
		wg.Add(1)
		go func(s int) {
			defer wg.Done()
			sem <- struct{}{}
			defer func() { <-sem }()
			cmd := exec.Command(self, "worker", id, tier, strconv.Itoa(s), strconv.Itoa(n), strconv.FormatInt(seed, 10))
			cmd.Env = append(os.Environ(), "GOMAXPROCS=1", "GOTRACEBACK=single")
			if e := os.Getenv("VERIF_WORKER_GOMAXPROCS"); e != "" {
				cmd.Env = append(cmd.Env, "GOMAXPROCS="+e)
			}
			var stdout, stderr bytes.Buffer
			cmd.Stdout = &stdout
			cmd.Stderr = &stderr
			if err := cmd.Start(); err != nil {
				mu.Lock()
				merged.Incomplete = append(merged.Incomplete, fmt.Sprintf("shard %d: cannot start worker: %v", s, err))
				mu.Unlock()
				return
			}
			timer := time.AfterFunc(killAfter, func() { _ = cmd.Process.Kill() })
			err := cmd.Wait()
			timer.Stop()
			var res *Result
			for _, line := range strings.Split(stdout.String(), "\n") {
				if strings.HasPrefix(line, "RESULT ") {
					var r Result
					if json.Unmarshal([]byte(line[7:]), &r) == nil {
						res = &r
					}
				}
			}
			mu.Lock()
			defer mu.Unlock()
			if err != nil {
				// a worker whose parse overflows the goroutine stack has not returned what any of the properties promise
				// for that input: a violation of every check; running out of memory only where the check says so
				es := stderr.String()
				sigs := []string{"fatal error: stack overflow", "goroutine stack exceeds"}
				if c.CrashIsViolation {
					sigs = append(sigs, "fatal error: out of memory", "runtime: out of memory")
				}
				for _, sig := range sigs {
					if strings.Contains(es, sig) {
						if res == nil {
							res = NewResult()
						}
						res.Violate("worker-crash", fmt.Sprintf("worker %d/%d of the exploration died of a fatal runtime error while parsing (%s): %s", s, n, sig, firstLines(es, 2)),
							map[string]any{"crashed_shard": s, "shards": n, "tier": tier, "seed": seed})
						break
					}
				}
			}
			if res == nil {
				tail := stderr.String()
				if len(tail) > 1500 {
					tail = tail[:700] + "\n...\n" + tail[len(tail)-700:]
				}
				merged.Incomplete = append(merged.Incomplete, fmt.Sprintf("shard %d/%d: worker died without a result (%v); stderr: %s", s, n, err, tail))
				merged.Add("workers_died", 1)
				return
			}
			merged.merge(res)
		}(s)
	}
	wg.Wait()
	if c.Finish != nil {
		c.Finish(tier, merged)
	}

	// Judge violations against the known-findings file.
	known := loadKnown()
	knownKeys := map[string]KnownFinding{}
	for _, k := range known {
		if k.Property == id && k.Status == "known" {
			knownKeys[k.Key] = k
		}
	}
	sort.SliceStable(merged.Violations, func(i, j int) bool {
		a, b := merged.Violations[i], merged.Violations[j]
		if len(a.Case) != len(b.Case) {
			return len(a.Case) < len(b.Case)
		}
		return string(a.Case) < string(b.Case)
	})
	var fresh []Violation
	seenKnown := map[string]int{}
	for _, v := range merged.Violations {
		if _, ok := knownKeys[v.Key]; ok {
			seenKnown[v.Key]++
			continue
		}
		fresh = append(fresh, v)
	}
	var knownCount int64
	for k, cnt := range seenKnown {
		kf := knownKeys[k]
		fmt.Printf("KNOWN-FINDING: property=%s %s [key=%s; %d kept case(s) this run]\n", id, kf.What, k, cnt)
		knownCount += int64(cnt)
	}
	exit := 0
	var replayPaths []string
	if len(fresh) > 0 {
		dir := filepath.Join(VerifDir, "replays"+os.Getenv("VERIF_EVIDENCE_SUFFIX"), id)
		_ = os.MkdirAll(dir, 0o755)
		broken := false
		for i, v := range fresh {
			if i >= 10 {
				break
			}
			path := filepath.Join(dir, fmt.Sprintf("%s-%d.json", tier, i))
			b, _ := json.MarshalIndent(replayFile{Property: id, Key: v.Key, What: v.What, Case: v.Case}, "", " ")
			_ = os.WriteFile(path, b, 0o644)
			replayPaths = append(replayPaths, path)
			// Re-execute the first few from the file, in fresh processes, before believing them.
			if i < 3 && c.Replay != nil {
				for rep := 0; rep < 5; rep++ {
					cmd := exec.Command(self, "replay", path)
					cmd.Env = append(os.Environ(), "GOTRACEBACK=single")
					out, _ := cmd.CombinedOutput()
					if !bytes.Contains(out, []byte("VIOLATION property="+id)) {
						fmt.Printf("BROKEN-HARNESS: property=%s violation does not reproduce from %s (attempt %d): %s\n", id, path, rep+1, firstLines(string(out), 6))
						broken = true
						break
					}
				}
			}
			fmt.Printf("  key=%s\n  %s\n", v.Key, v.What)
			fmt.Printf("VIOLATION property=%s replay=%s\n", id, path)
		}
		if merged.ViolationCount-knownCount > int64(len(fresh)) {
			fmt.Printf("(%d violating cases in total; the smallest are listed)\n", merged.ViolationCount)
		}
		exit = 1
		if broken {
			exit = 2
		}
	}

	writeEvidence(c, tier, seed, merged, time.Since(start), len(fresh), knownCount, replayPaths, n)
	status := "HOLDS"
	if exit != 0 {
		status = "VIOLATED"
	}
	fmt.Printf("%s %s tier=%s states=%d transitions=%d traces=%d nontrivial=%d undecided=%d exhaustive=%v wall=%.1fs\n",
		id, status, tier, merged.Counters["states"], merged.Counters["transitions"], merged.Counters["traces"],
		merged.Counters["nontrivial"], merged.Counters["undecided"], len(merged.Incomplete) == 0, time.Since(start).Seconds())
	for _, s := range merged.Incomplete {
		fmt.Println("  incomplete:", firstLines(s, 3))
	}
	return exit
}

func firstLines(s string, n int) string {
	lines := strings.Split(strings.TrimSpace(s), "\n")
	if len(lines) > n {
		lines = lines[:n]
	}
	return strings.Join(lines, " | ")
}

func writeEvidence(c *Check, tier string, seed int64, m *Result, wall time.Duration, fresh int, knownCount int64, replays []string, shards int) {
	cov := map[string]any{}
	for k, v := range m.Counters {
		cov[k] = v
	}
	states := m.Counters["states"]
	cov["states"] = states
	cov["transitions"] = m.Counters["transitions"]
	cov["traces_validated_against_impl"] = m.Counters["traces"]
	cov["evaluations"] = states
	cov["distinct_nontrivial"] = m.Counters["nontrivial"]
	delete(cov, "traces")
	delete(cov, "nontrivial")
	cov["rule"] = c.Rule
	samples := m.Samples
	if len(samples) == 0 {
		samples = []any{"(no case was explored)"}
	}
	cov["samples"] = samples
	cov["exhaustive"] = len(m.Incomplete) == 0 && states > 0
	if len(m.Incomplete) > 0 {
		cov["incomplete_reasons"] = m.Incomplete
	}
	if len(m.Notes) > 0 {
		cov["notes"] = m.Notes
	}
	if c.Bounds != nil {
		cov["bounds"] = c.Bounds(tier)
	}
	cov["distinct_outcomes"] = len(m.Outcomes)
	if len(m.Outcomes) > 0 && len(m.Outcomes) <= 40 {
		cov["outcomes"] = m.Outcomes
	}
	cov["worker_processes"] = shards
	if len(m.KeyCounts) > 0 {
		cov["violation_keys"] = m.KeyCounts
	}
	if os.Getenv("VERIF_DUMP_VIOLATIONS") != "" {
		b, _ := json.MarshalIndent(m.KeyGrammars, "", " ")
		_ = os.WriteFile(os.Getenv("VERIF_DUMP_VIOLATIONS"), b, 0o644)
	}
	cov["known_finding_cases"] = knownCount
	if len(replays) > 0 {
		cov["replays"] = replays
	}
	ev := map[string]any{
		"property_id": c.ID,
		"tier":        tier,
		"seed":        seed,
		"level":       c.Level,
		"coverage":    cov,
		"assumptions": c.Assume,
		"wall_s":      float64(int(wall.Seconds()*100)) / 100,
		"violations":  fresh,
	}
	dir := filepath.Join(VerifDir, "evidence")
	_ = os.MkdirAll(dir, 0o755)
	b, _ := json.MarshalIndent(ev, "", " ")
	tmp := filepath.Join(dir, c.ID+".json.tmp")
	if err := os.WriteFile(tmp, append(b, '\n'), 0o644); err == nil {
		// VERIF_EVIDENCE_SUFFIX is set by bin/run-seed so that runs against a deliberately broken tree do not replace the real evidence
		_ = os.Rename(tmp, filepath.Join(dir, c.ID+".json"+os.Getenv("VERIF_EVIDENCE_SUFFIX")))
	}
}

// Guard runs f and converts a panic into (recovered value, stack-free message).
func Guard(f func()) (panicked bool, msg string) {
	defer func() {
		if r := recover(); r != nil {
			panicked = true
			msg = fmt.Sprint(r)
		}
	}()
	f()
	return
}
