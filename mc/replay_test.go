package mc

import (
	"os"
	"testing"

	"verif/mc/explore"
	_ "verif/mc/gx"
	_ "verif/mc/hist"
	_ "verif/mc/ix"
	_ "verif/mc/sx"
)

// TestReplay replays the violation file named in VERIF_REPLAY as a plain unit test, without the explorer:
//
//	VERIF_REPLAY=/verif/replays/C01/quick-0.json go test -tags verif -run TestReplay .
func TestReplay(t *testing.T) {
	path := os.Getenv("VERIF_REPLAY")
	if path == "" {
		t.Skip("VERIF_REPLAY not set")
	}
	if rc := explore.ReplayMain(path); rc != 0 {
		t.Fatalf("replay of %s: the property is violated on this case (exit %d)", path, rc)
	}
}
