// Package sched is the stateless schedule explorer of C14: real goroutines run
// one at a time under a cooperative scheduler; every hooked operation calls
// Point(); the explorer enumerates, depth-first, every schedule whose number of
// preemptions stays within an iteratively raised bound.
package sched

import (
	"fmt"
	"time"
)

// point is one scheduling decision of an execution.
type point struct {
	enabled             []int // canonical order: running thread first if still enabled, then ascending ids
	runningStillEnabled bool
	chosen              int // index into enabled
}

type thread struct {
	id     int
	resume chan struct{}
	done   bool
	panic  string
}

// Exec is one controlled execution.
type Exec struct {
	threads []*thread
	report  chan int
	cur     int
	points  []point
	prefix  []int
	// Divergence is set when a replayed prefix asked for a choice that does not exist (hard error).
	Divergence string
	Stuck      bool
}

// Point is called by the running thread at every hooked operation.
func (e *Exec) Point() {
	t := e.threads[e.cur]
	e.report <- t.id
	<-t.resume
}

// Panics returns the panic message of thread i ("" if none).
func (e *Exec) Panics(i int) string { return e.threads[i].panic }

// Choices returns the choice sequence actually taken.
func (e *Exec) Choices() []int {
	out := make([]int, len(e.points))
	for i, p := range e.points {
		out[i] = p.chosen
	}
	return out
}

// Preemptions counts the preemptions of the execution.
func (e *Exec) Preemptions() int { return e.preemptionsBefore(len(e.points)) }

func (e *Exec) preemptionsBefore(i int) int {
	n := 0
	for _, p := range e.points[:i] {
		if p.runningStillEnabled && p.chosen != 0 {
			n++
		}
	}
	return n
}

// run executes bodies under the schedule prefix (then choice 0 = keep running / lowest id).
func run(bodies []func(e *Exec), prefix []int) *Exec {
	e := &Exec{report: make(chan int), prefix: prefix, cur: -1}
	for i := range bodies {
		t := &thread{id: i, resume: make(chan struct{})}
		e.threads = append(e.threads, t)
		body := bodies[i]
		go func() {
			<-t.resume
			func() {
				defer func() {
					if r := recover(); r != nil {
						t.panic = fmt.Sprint(r)
					}
				}()
				body(e)
			}()
			t.done = true
			e.report <- t.id
		}()
	}
	running := -1
	for {
		var enabled []int
		still := false
		if running >= 0 && !e.threads[running].done {
			enabled = append(enabled, running)
			still = true
		}
		for _, t := range e.threads {
			if !t.done && t.id != running {
				enabled = append(enabled, t.id)
			}
		}
		if len(enabled) == 0 {
			return e
		}
		i := len(e.points)
		choice := 0
		if i < len(prefix) {
			choice = prefix[i]
			if choice < 0 || choice >= len(enabled) {
				e.Divergence = fmt.Sprintf("decision %d: prefix asks for choice %d but only %d thread(s) are enabled", i, choice, len(enabled))
				choice = 0
			}
		}
		e.points = append(e.points, point{enabled: enabled, runningStillEnabled: still, chosen: choice})
		running = enabled[choice]
		e.cur = running
		e.threads[running].resume <- struct{}{}
		select {
		case <-e.report:
		case <-time.After(20 * time.Second):
			// a thread neither reached a point nor finished: only possible if the code under test blocks
			e.Stuck = true
			return e
		}
	}
}

// Stats of an exploration.
type Stats struct {
	Executions   int64
	Points       int64
	MaxPoints    int
	BoundReached int
	Truncated    bool
	ByBound      map[int]int64
}

// Explore runs every schedule of bodies() with at most `bound` preemptions (a switch away from a thread that
// could continue is a preemption; a switch at thread exit is free) and calls check after each complete
// execution. Executions are counted per number of preemptions, so the evidence shows what each bound 0..bound
// contributes. bodies must return fresh closures for every execution. maxExec caps the number of executions
// (Truncated is set when hit). check returns false to stop early.
func Explore(bodies func() []func(e *Exec), bound int, maxExec int64, check func(e *Exec) bool) Stats {
	st := Stats{ByBound: map[int]int64{}, BoundReached: bound}
	stop := false
	var explore func(prefix []int)
	explore = func(prefix []int) {
		if stop {
			return
		}
		if maxExec > 0 && st.Executions >= maxExec {
			st.Truncated = true
			stop = true
			return
		}
		x := run(bodies(), prefix)
		st.Executions++
		st.ByBound[x.Preemptions()]++
		st.Points += int64(len(x.points))
		if len(x.points) > st.MaxPoints {
			st.MaxPoints = len(x.points)
		}
		if !check(x) {
			stop = true
			return
		}
		choices := x.Choices()
		for i := len(prefix); i < len(x.points) && !stop; i++ {
			p := x.points[i]
			cost := x.preemptionsBefore(i)
			if p.runningStillEnabled {
				cost++
			}
			if cost > bound {
				continue
			}
			for alt := 1; alt < len(p.enabled); alt++ {
				explore(append(append([]int{}, choices[:i]...), alt))
			}
		}
	}
	explore(nil)
	if stop && st.Truncated {
		st.BoundReached = -1
	}
	return st
}

// Replay runs one schedule.
func Replay(bodies []func(e *Exec), choices []int) *Exec { return run(bodies, choices) }
