// Package hist is the explicit-state search over operation histories on the
// real data.IntSet / data.IntMap values (property C15).
//
// A state is the pool of every value produced so far, each paired with the
// model value it had when it was produced. A transition applies one operation
// of the alphabet to pool members. After every transition the new value must
// equal the model's and EVERY pool member must still read as its model value.
package hist

import (
	"encoding/json"
	"fmt"
	"math"
	"reflect"
	"sort"
	"strings"

	"github.com/opsidian/parsley/data"

	"verif/mc/explore"
)

// Op is one operation of the alphabet. A and B index pool members.
type Op struct {
	K string `json:"op"`          // newset insert union newmap inc filter
	A int    `json:"a,omitempty"` // receiver
	B int    `json:"b,omitempty"` // second operand
	V []int  `json:"v,omitempty"` // values / key / map literal as k,v pairs
}

func (o Op) String() string {
	switch o.K {
	case "newset":
		return fmt.Sprintf("NewIntSet(%s)", ints(o.V))
	case "newsetwin":
		return fmt.Sprintf("NewIntSet(args[%d:%d]...) with args=%v", o.V[0], o.V[1], argPoolTemplate)
	case "insert":
		return fmt.Sprintf("m%d.Insert(%d)", o.A, o.V[0])
	case "union":
		return fmt.Sprintf("m%d.Union(m%d)", o.A, o.B)
	case "newmap":
		return fmt.Sprintf("NewIntMap(%s)", pairs(o.V))
	case "zeromap":
		return "data.IntMap{} (the zero value)"
	case "zeroset":
		return "data.IntSet{} (the zero value)"
	case "inc":
		return fmt.Sprintf("m%d.Inc(%d)", o.A, o.V[0])
	case "filter":
		return fmt.Sprintf("m%d.Filter(m%d)", o.A, o.B)
	}
	return o.K
}

func ints(v []int) string {
	s := make([]string, len(v))
	for i, x := range v {
		s[i] = fmt.Sprint(x)
	}
	return strings.Join(s, ",")
}

func pairs(v []int) string {
	if v == nil {
		return "nil"
	}
	var s []string
	for i := 0; i+1 < len(v); i += 2 {
		s = append(s, fmt.Sprintf("%d:%d", v[i], v[i+1]))
	}
	return "{" + strings.Join(s, ",") + "}"
}

type member struct {
	isSet bool
	set   data.IntSet
	mp    data.IntMap
	mset  []int       // model: ascending, no duplicates
	mmap  map[int]int // model
	how   string
}

type pool struct {
	m    []member
	args []int // this history's copy of argPoolTemplate
}

func newPool() *pool {
	p := &pool{args: append([]int{}, argPoolTemplate...)}
	// The shared empty values are members 0 and 1 of every pool: they must read
	// as empty in every state, and operations are applied to them like to any other value.
	p.m = append(p.m, member{isSet: true, set: data.EmptyIntSet, mset: nil, how: "EmptyIntSet"})
	p.m = append(p.m, member{isSet: false, mp: data.EmptyIntMap, mmap: map[int]int{}, how: "EmptyIntMap"})
	return p
}

func modelInsert(s []int, v int) []int {
	i := sort.SearchInts(s, v)
	if i < len(s) && s[i] == v {
		return append([]int(nil), s...)
	}
	out := make([]int, 0, len(s)+1)
	out = append(out, s[:i]...)
	out = append(out, v)
	out = append(out, s[i:]...)
	return out
}

func cloneMap(m map[int]int) map[int]int {
	o := make(map[int]int, len(m))
	for k, v := range m {
		o[k] = v
	}
	return o
}

// enabled reports whether op can be applied to the pool (type-correct operands).
func (p *pool) enabled(o Op) bool {
	in := func(i int) bool { return i >= 0 && i < len(p.m) }
	switch o.K {
	case "newset", "newmap", "zeromap", "zeroset":
		return true
	case "newsetwin":
		return len(o.V) == 2 && o.V[0] >= 0 && o.V[0] <= o.V[1] && o.V[1] <= len(p.args)
	case "insert":
		return in(o.A) && p.m[o.A].isSet && len(o.V) == 1
	case "union":
		return in(o.A) && in(o.B) && p.m[o.A].isSet && p.m[o.B].isSet
	case "inc":
		return in(o.A) && !p.m[o.A].isSet && len(o.V) == 1
	case "filter":
		return in(o.A) && in(o.B) && !p.m[o.A].isSet && p.m[o.B].isSet
	}
	return false
}

// apply performs the operation on the REAL values and on the model.
func (p *pool) apply(o Op) {
	switch o.K {
	case "newset":
		var ms []int
		for _, v := range o.V {
			ms = modelInsert(ms, v)
		}
		p.m = append(p.m, member{isSet: true, set: data.NewIntSet(o.V...), mset: ms, how: o.String()})
	case "newsetwin":
		var ms []int
		for _, v := range argPoolTemplate[o.V[0]:o.V[1]] { // the model reads the pristine template
			ms = modelInsert(ms, v)
		}
		p.m = append(p.m, member{isSet: true, set: data.NewIntSet(p.args[o.V[0]:o.V[1]]...), mset: ms, how: o.String()})
	case "insert":
		a := p.m[o.A]
		p.m = append(p.m, member{isSet: true, set: a.set.Insert(o.V[0]), mset: modelInsert(a.mset, o.V[0]), how: o.String()})
	case "union":
		a, b := p.m[o.A], p.m[o.B]
		ms := append([]int(nil), a.mset...)
		for _, v := range b.mset {
			ms = modelInsert(ms, v)
		}
		p.m = append(p.m, member{isSet: true, set: a.set.Union(b.set), mset: ms, how: o.String()})
	case "newmap":
		var lit map[int]int
		mm := map[int]int{}
		if o.V != nil {
			lit = map[int]int{}
			for i := 0; i+1 < len(o.V); i += 2 {
				lit[o.V[i]] = o.V[i+1]
				mm[o.V[i]] = o.V[i+1]
			}
		}
		p.m = append(p.m, member{mp: data.NewIntMap(lit), mmap: mm, how: o.String()})
	case "zeromap":
		// the zero value of the type is a legal empty map (nothing in the API says a constructor must be used)
		p.m = append(p.m, member{mp: data.IntMap{}, mmap: map[int]int{}, how: o.String()})
	case "zeroset":
		p.m = append(p.m, member{isSet: true, set: data.IntSet{}, mset: nil, how: o.String()})
	case "inc":
		a := p.m[o.A]
		mm := cloneMap(a.mmap)
		mm[o.V[0]]++
		p.m = append(p.m, member{mp: a.mp.Inc(o.V[0]), mmap: mm, how: o.String()})
	case "filter":
		a, b := p.m[o.A], p.m[o.B]
		mm := map[int]int{}
		for _, k := range b.mset {
			if v, ok := a.mmap[k]; ok {
				mm[k] = v
			}
		}
		p.m = append(p.m, member{mp: a.mp.Filter(b.set), mmap: mm, how: o.String()})
	}
}

// readSet observes a set through its public API only.
func readSet(s data.IntSet) (vals []int, ln int) {
	s.Each(func(v int) { vals = append(vals, v) })
	return vals, s.Len()
}

// check compares member i with its model; returns "" or a description.
func (p *pool) check(i int) string {
	m := p.m[i]
	if m.isSet {
		vals, ln := readSet(m.set)
		if ln != len(m.mset) {
			return fmt.Sprintf("m%d (%s): Len()=%d, model %v", i, m.how, ln, m.mset)
		}
		if !reflect.DeepEqual(append([]int{}, vals...), append([]int{}, m.mset...)) {
			return fmt.Sprintf("m%d (%s): Each yields %v, model %v", i, m.how, vals, m.mset)
		}
		return ""
	}
	keys := m.mp.Keys()
	sort.Ints(keys)
	var mk []int
	for k := range m.mmap {
		mk = append(mk, k)
	}
	sort.Ints(mk)
	if !reflect.DeepEqual(append([]int{}, keys...), append([]int{}, mk...)) {
		return fmt.Sprintf("m%d (%s): Keys()=%v, model %v", i, m.how, keys, m.mmap)
	}
	for k := 0; k <= 4; k++ {
		if got := m.mp.Get(k); got != m.mmap[k] {
			return fmt.Sprintf("m%d (%s): Get(%d)=%d, model %d", i, m.how, k, got, m.mmap[k])
		}
	}
	seen := map[int]int{}
	calls := 0
	m.mp.Each(func(k, v int) { seen[k] = v; calls++ })
	if calls != len(m.mmap) || !reflect.DeepEqual(seen, m.mmap) {
		return fmt.Sprintf("m%d (%s): Each yields %v in %d calls, model %v", i, m.how, seen, calls, m.mmap)
	}
	return ""
}

// descriptor of private representation, used only for the state key.
type rep struct {
	ok       bool
	ln, cp   int
	ptr      uintptr
	contents string
}

func repOf(m member) rep {
	var v reflect.Value
	if m.isSet {
		v = reflect.ValueOf(m.set)
	} else {
		v = reflect.ValueOf(m.mp)
	}
	if v.Kind() != reflect.Struct || v.NumField() != 1 {
		return rep{}
	}
	f := v.Field(0)
	switch f.Kind() {
	case reflect.Slice:
		return rep{ok: true, ln: f.Len(), cp: f.Cap(), ptr: f.Pointer()}
	case reflect.Map:
		return rep{ok: true, ln: f.Len(), ptr: f.Pointer()}
	}
	return rep{}
}

// key is the canonical form of a pool: per member the model contents, len, cap
// and alias class of the backing store, in pool order with duplicates (same
// contents AND same representation) removed. Future behaviour of append/copy
// based code depends only on these; see DESIGN.md 3.3. If the representation
// cannot be read (library refactored), ok=false and the caller does not merge states.
func (p *pool) key() (string, bool) {
	classes := map[uintptr]int{}
	var parts []string
	seen := map[string]bool{}
	for _, m := range p.m {
		r := repOf(m)
		if !r.ok {
			return "", false
		}
		c, ok := classes[r.ptr]
		if !ok {
			c = len(classes)
			classes[r.ptr] = c
		}
		if r.ptr == 0 {
			c = -1
		}
		var d string
		if m.isSet {
			d = fmt.Sprintf("S%v/%d/%d/#%d", m.mset, r.ln, r.cp, c)
		} else {
			keys := make([]int, 0, len(m.mmap))
			for k := range m.mmap {
				keys = append(keys, k)
			}
			sort.Ints(keys)
			d = "M"
			for _, k := range keys {
				d += fmt.Sprintf("%d:%d,", k, m.mmap[k])
			}
			d += fmt.Sprintf("/#%d", c)
		}
		if !seen[d] {
			seen[d] = true
			parts = append(parts, d)
		}
	}
	// Class numbers depend on first appearance; sorting the descriptors would need
	// renumbering, so pool order is kept (over-fine keys only cost time).
	return strings.Join(parts, ";"), true
}

// liveIndices returns one pool index per distinct (contents, representation) descriptor.
func (p *pool) distinctMembers() []int {
	classes := map[uintptr]int{}
	seen := map[string]bool{}
	var out []int
	for i, m := range p.m {
		r := repOf(m)
		if !r.ok {
			out = append(out, i)
			continue
		}
		c, ok := classes[r.ptr]
		if !ok {
			c = len(classes)
			classes[r.ptr] = c
		}
		d := fmt.Sprintf("%v|%v|%v|%d|%d|%d", m.isSet, m.mset, m.mmap, r.ln, r.cp, c)
		if !seen[d] {
			seen[d] = true
			out = append(out, i)
		}
	}
	return out
}

// Case is a replayable history.
type Case struct {
	Ops []Op `json:"ops"`
}

func (c Case) String() string {
	s := make([]string, len(c.Ops))
	for i, o := range c.Ops {
		s[i] = fmt.Sprintf("m%d=%s", i+2, o.String())
	}
	return strings.Join(s, "; ")
}

// runHistory replays ops on a fresh pool, checking after every step. It returns
// the pool, and (key, what) of the first violation, if any.
func runHistory(ops []Op, checkAll bool) (p *pool, vkey, what string) {
	p = newPool()
	for step, o := range ops {
		if !p.enabled(o) {
			return p, "harness", fmt.Sprintf("step %d: operation %s not applicable", step, o)
		}
		var pm string
		var panicked bool
		panicked, pm = explore.Guard(func() { p.apply(o) })
		if panicked {
			return p, "panic:" + o.K, fmt.Sprintf("step %d: %s panicked: %s", step, o, pm)
		}
		last := step == len(ops)-1
		if !checkAll && !last {
			continue
		}
		n := len(p.m) - 1
		if d := p.check(n); d != "" {
			return p, "result:" + o.K, fmt.Sprintf("after %s: wrong result: %s", o, d)
		}
		for i := 0; i < n; i++ {
			if d := p.check(i); d != "" {
				return p, "mutated-by:" + o.K, fmt.Sprintf("after %s an EARLIER value changed: %s", o, d)
			}
		}
		if d := p.keysStable(); d != "" {
			return p, "keys-rewritten-by-later-call", fmt.Sprintf("after %s: %s", o, d)
		}
	}
	return p, "", ""
}

// keysStable: the key lists handed out by Keys() are values obtained from the maps; asking every map of the pool for
// its keys and THEN reading the lists must show each list as it was returned.
func (p *pool) keysStable() string {
	type kept struct {
		i        int
		got, was []int
	}
	var ks []kept
	for i, m := range p.m {
		if !m.isSet {
			k := m.mp.Keys()
			ks = append(ks, kept{i, k, append([]int{}, k...)})
		}
	}
	for _, k := range ks {
		if !reflect.DeepEqual(append([]int{}, k.got...), k.was) {
			return fmt.Sprintf("the key list %v returned by m%d.Keys() reads %v after Keys() was called on the other maps of the pool", k.was, k.i, k.got)
		}
	}
	return ""
}

// vals includes 0: the zero value is what a "nothing emitted yet" sentinel looks like
var vals = []int{0, 1, 2}

// argPool is the caller-side slice whose windows are passed to NewIntSet(window...): sets built from overlapping
// windows of one backing array must stay independent of each other (each history gets a fresh copy)
var argPoolTemplate = []int{2, 0, 1, 0, 2}

// alphabet lists the operations applicable to pool p.
func alphabet(p *pool, withMaps bool) []Op {
	var ops []Op
	// constructors: every argument tuple of length <= 3 (duplicates and unsorted included)
	ops = append(ops, Op{K: "newset"})
	for _, a := range vals {
		ops = append(ops, Op{K: "newset", V: []int{a}})
		for _, b := range vals {
			ops = append(ops, Op{K: "newset", V: []int{a, b}})
			for _, c := range vals {
				ops = append(ops, Op{K: "newset", V: []int{a, b, c}})
			}
		}
	}
	for _, w := range [][]int{{0, 3}, {0, 5}, {1, 4}, {2, 5}, {3, 5}} {
		ops = append(ops, Op{K: "newsetwin", V: w})
	}
	if withMaps {
		ops = append(ops, Op{K: "zeromap"}, Op{K: "zeroset"})
		ops = append(ops, Op{K: "newmap"})             // nil
		ops = append(ops, Op{K: "newmap", V: []int{}}) // empty literal
		for _, a := range vals {
			ops = append(ops, Op{K: "newmap", V: []int{a, 1}})
		}
		ops = append(ops, Op{K: "newmap", V: []int{1, 2, 3, 1}})
		// a key stored with the value 0 is a key (Inc never produces it, the constructor accepts it)
		ops = append(ops, Op{K: "newmap", V: []int{1, 0}})
		ops = append(ops, Op{K: "newmap", V: []int{0, 0, 2, 5}})
	}
	idx := p.distinctMembers()
	for _, i := range idx {
		if p.m[i].isSet {
			for _, v := range vals {
				ops = append(ops, Op{K: "insert", A: i, V: []int{v}})
			}
			for _, j := range idx {
				if p.m[j].isSet {
					ops = append(ops, Op{K: "union", A: i, B: j})
				}
			}
		} else if withMaps {
			for _, v := range vals {
				ops = append(ops, Op{K: "inc", A: i, V: []int{v}})
			}
			for _, j := range idx {
				if p.m[j].isSet {
					ops = append(ops, Op{K: "filter", A: i, B: j})
				}
			}
		}
	}
	return ops
}

type scenario struct {
	name     string
	withMaps bool
	depth    int
	// prefix: the histories of this scenario all start with these operations (a non-initial start state: the pool
	// already holds values) and then only DERIVE values (no further constructor calls); depth counts the derivations
	prefix []Op
	// vals, when set, replaces the value domain {0,1,2} for the Insert arguments of this scenario
	vals []int
}

// the extremes of the int range: a comparison written as a subtraction overflows between them
var extremeSets = []Op{{K: "newset", V: []int{math.MinInt64}}, {K: "newset", V: []int{1}}, {K: "newset", V: []int{math.MaxInt64}}, {K: "newset", V: []int{-5000000000000000000, 7}}}
var extremeVals = []int{math.MinInt64, 0, math.MaxInt64}

// the start state the library itself works from: one singleton set per parser index
// sets larger than the sizes at which an implementation may switch strategy (8, 16, 32 elements)
func span(n int) []int {
	v := make([]int, n)
	for i := range v {
		v[i] = i
	}
	return v
}

var largeSets = []Op{{K: "newset", V: span(9)}, {K: "newset", V: span(17)}, {K: "newset", V: append(span(33), 40)}}

var singletons = []Op{{K: "newset", V: []int{0}}, {K: "newset", V: []int{1}}, {K: "newset", V: []int{2}}}

func scenarios(tier string) []scenario {
	if tier == "thorough" {
		return []scenario{{"sets", false, 5, nil, nil}, {"sets+maps", true, 4, nil, nil}, {"derived-from-singletons", false, 5, singletons, nil}, {"derived-from-large-sets", false, 3, largeSets, nil}, {"derived-from-extreme-values", false, 3, extremeSets, extremeVals}}
	}
	return []scenario{{"sets", false, 4, nil, nil}, {"sets+maps", true, 3, nil, nil}, {"derived-from-singletons", false, 4, singletons, nil}, {"derived-from-large-sets", false, 2, largeSets, nil}, {"derived-from-extreme-values", false, 3, extremeSets, extremeVals}}
}

func run(env *explore.Env) *explore.Result {
	res := explore.NewResult()
	for _, sc := range scenarios(env.Tier) {
		bfs(env, sc, res)
	}
	return res
}

// bfs explores all histories of the scenario up to its depth. Level-1 subtrees
// are distributed over the workers; duplicate detection is per worker.
func bfs(env *explore.Env, sc scenario, res *explore.Result) {
	if sc.vals != nil {
		saved := vals
		vals = sc.vals
		defer func() { vals = saved }()
	}
	seen := map[string]bool{}
	type node struct{ ops []Op }
	root := newPool()
	if sc.prefix != nil {
		root, _, _ = runHistory(sc.prefix, false)
	}
	ops := func(p *pool) []Op {
		all := alphabet(p, sc.withMaps)
		if sc.prefix == nil {
			return all
		}
		var derive []Op
		for _, o := range all {
			if !strings.HasPrefix(o.K, "new") {
				derive = append(derive, o)
			}
		}
		return derive
	}
	first := ops(root)
	var frontier []node
	for i, o := range first {
		if env.Mine(int64(i)) {
			frontier = append(frontier, node{append(append([]Op{}, sc.prefix...), o)})
		}
	}
	canMerge := true
	for depth := 1; depth <= sc.depth && len(frontier) > 0; depth++ {
		var next []node
		for _, nd := range frontier {
			if len(data.EmptyIntMap.Keys()) != 0 || data.EmptyIntSet.Len() != 0 {
				// an earlier history (reported above) has written into the package-level empty values: nothing this
				// process computes from now on can be reproduced from its own history alone
				res.Notes = append(res.Notes, "the shared empty values were polluted by a reported history: this worker stopped exploring")
				return
			}
			p, vkey, what := runHistory(nd.ops, false)
			res.Add("transitions", 1)
			res.Add("traces", 1)
			if vkey != "" {
				res.Violate(vkey, what+" — history: "+Case{nd.ops}.String(), Case{nd.ops})
				continue // do not extend a history that is already wrong
			}
			k, ok := p.key()
			if !ok {
				canMerge = false
			}
			if ok {
				k = sc.name + "|" + k
				if seen[k] {
					res.Add("revisits", 1)
					continue
				}
				seen[k] = true
			}
			res.Add("states", 1)
			res.Max("max_depth_completed", int64(depth))
			nontrivial := false
			// non-trivial: some value shares a backing store with another or has spare capacity
			cls := map[uintptr]int{}
			for _, m := range p.m {
				r := repOf(m)
				if r.ok && m.isSet && (r.cp > r.ln) {
					nontrivial = true
				}
				if r.ok && r.ptr != 0 {
					cls[r.ptr]++
					if cls[r.ptr] > 1 {
						nontrivial = true
					}
				}
			}
			if nontrivial {
				res.Add("nontrivial", 1)
			}
			if depth == 2 || depth == sc.depth {
				res.Sample(Case{nd.ops}.String())
			}
			last := p.m[len(p.m)-1]
			if last.isSet {
				res.Outcome(fmt.Sprintf("set%v", last.mset))
			} else {
				res.Outcome(fmt.Sprintf("map%v", last.mmap))
			}
			if depth < sc.depth {
				for _, o := range ops(p) {
					ops := make([]Op, len(nd.ops)+1)
					copy(ops, nd.ops)
					ops[len(nd.ops)] = o
					next = append(next, node{ops})
				}
			}
		}
		frontier = next
	}
	if !canMerge {
		res.Notes = append(res.Notes, "private representation of IntSet/IntMap not readable by reflection: states were not merged")
	}
}

func replay(raw json.RawMessage) *explore.Result {
	res := explore.NewResult()
	var c Case
	if err := json.Unmarshal(raw, &c); err != nil {
		res.Notes = append(res.Notes, "bad case: "+err.Error())
		return res
	}
	res.Notes = append(res.Notes, "history: "+c.String())
	p, vkey, what := runHistory(c.Ops, true)
	for i := range p.m {
		m := p.m[i]
		if m.isSet {
			vals, _ := readSet(m.set)
			res.Notes = append(res.Notes, fmt.Sprintf("  m%d = %-22s reads %v, model %v", i, m.how, vals, m.mset))
		} else {
			res.Notes = append(res.Notes, fmt.Sprintf("  m%d = %-22s reads keys %v, model %v", i, m.how, m.mp.Keys(), m.mmap))
		}
	}
	if vkey != "" {
		res.Violate(vkey, what, c)
	}
	return res
}

func init() {
	explore.Register(&explore.Check{
		ID:    "C15",
		Level: "model_checking",
		Rule: "explicit-state BFS over all operation histories (NewIntSet with <=3 args from {0,1,2} and with windows of one shared argument slice, Insert, Union, NewIntMap, Inc, Filter; plus all derivation-only histories (Insert/Union) starting from the pool {0},{1},{2}; " +
			"Len/Each/Keys/Get observed on every pool member after every transition) on the real data.IntSet/IntMap values; state = pool contents + len/cap/alias class; " +
			"non-trivial = a state in which some set has spare capacity or two values share a backing store (the situations in which in-place mutation can be observed)",
		Assume: []string{
			"Go runtime append/copy semantics; reflect reads of the private slice header are used only for the duplicate-detection key, never for the verdict",
			"values are read only through the public API (Len, Each, Keys, Get)",
		},
		Shards: func(string) int { return 16 },
		Run:    run,
		Replay: replay,
		Bounds: func(tier string) map[string]any {
			b := map[string]any{"values": vals}
			for _, sc := range scenarios(tier) {
				b["depth_"+sc.name] = sc.depth
			}
			return b
		},
	})
}
