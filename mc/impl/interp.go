package impl

import (
	"errors"
	"fmt"

	"github.com/opsidian/parsley/ast"
	"github.com/opsidian/parsley/parsley"
)

// Concat is an interpreter for every non-terminal of a generated grammar: it
// evaluates all children left to right, concatenates their values and propagates
// the first child error. Children without a value (empty nodes) contribute nothing.
var Concat = ast.InterpreterFunc(func(userCtx interface{}, node parsley.NonTerminalNode) (interface{}, parsley.Error) {
	s := ""
	for _, c := range node.Children() {
		v, err := parsley.EvaluateNode(userCtx, c)
		if err != nil {
			if errors.Is(err.Cause(), parsley.ErrNoValue) {
				continue
			}
			return nil, err
		}
		switch x := v.(type) {
		case nil:
		case rune:
			s += string(x)
		case string:
			s += x
		default:
			s += fmt.Sprint(x)
		}
	}
	return s, nil
})
