package impl

import (
	"fmt"

	"github.com/opsidian/parsley/ast"
	"github.com/opsidian/parsley/parser"
	"github.com/opsidian/parsley/parsley"

	"verif/mc/gram"
	"verif/mc/ref"
)

// Validator checks that a returned tree is a valid derivation of an expression:
// a structural recursion on the REAL node, independent of the table filler. It
// consults only the ends-only table (for maximality of sequence paths and Choice
// priority). It also checks contiguous spans and that the leaves spell the input.
type Validator struct {
	T      *ref.Table
	Base   int
	inprog map[vkey]bool
	Why    string // first reason a candidate derivation was rejected (diagnostics)
}

type vkey struct {
	id, pos int
	n       parsley.Node
}

// NewValidator makes a validator for table t; base is the file's base offset.
func NewValidator(t *ref.Table, base int) *Validator {
	return &Validator{T: t, Base: base, inprog: map[vkey]bool{}}
}

func (v *Validator) fail(format string, a ...any) bool {
	if v.Why == "" {
		v.Why = fmt.Sprintf(format, a...)
	}
	return false
}

// Valid reports whether n is a derivation of e starting at (relative) position i.
func (v *Validator) Valid(e *gram.Expr, n parsley.Node, i int) bool {
	if n == nil {
		return v.fail("nil node")
	}
	if _, isList := n.(ast.NodeList); isList {
		return v.fail("alternative list nested inside a tree")
	}
	pos, end := int(n.Pos())-v.Base, int(n.ReaderPos())-v.Base
	if pos != i {
		return v.fail("node %s starts at %d, derivation must start at %d", n.Token(), pos, i)
	}
	if end < pos || end > v.T.N {
		return v.fail("node %s has span <%d,%d> outside the input", n.Token(), pos, end)
	}
	g := v.T.G
	switch e.K {
	case gram.T:
		t, ok := n.(*ast.TerminalNode)
		if ok && t.Token() != string(e.Ch) {
			// built under another token name (impl.Tokens)? then it is identified by its value
			r, isRune := t.Value().(rune)
			ok = Tokens != nil && isRune && r == rune(e.Ch)
		}
		if !ok {
			return v.fail("expected terminal %q", string(e.Ch))
		}
		if r, ok := t.Value().(rune); !ok || r != rune(e.Ch) {
			return v.fail("terminal %q carries value %v", string(e.Ch), t.Value())
		}
		if i >= v.T.N || v.T.W[i] != e.Ch || end != i+1 {
			return v.fail("terminal %q<%d,%d> does not spell the input", string(e.Ch), pos, end)
		}
		return true
	case gram.Eps:
		_, ok := n.(ast.EmptyNode)
		return (ok && end == i) || v.fail("expected empty node at %d", i)
	case gram.End:
		_, ok := n.(parser.EndNode)
		return (ok && i >= v.T.N && end == i) || v.fail("expected EOF node at end of input")
	case gram.NT, gram.Sh, gram.Memo:
		body := g.Body(e)
		if e.K == gram.Memo {
			body = e.Kids[0]
		}
		k := vkey{body.ID, i, n}
		if v.inprog[k] {
			return false // cyclic derivation of the same node: not a finite derivation
		}
		v.inprog[k] = true
		ok := v.Valid(body, n, i)
		delete(v.inprog, k)
		return ok
	case gram.Any:
		for _, k := range e.Kids {
			if v.Valid(k, n, i) {
				return true
			}
		}
		return v.fail("no alternative of %s derives %s<%d,%d>", e, n.Token(), pos, end)
	case gram.Choice:
		for _, k := range e.Kids {
			if v.Valid(k, n, i) {
				return true
			}
			if v.T.Ends[k.ID][i] != 0 {
				return v.fail("choice %s: an earlier alternative matches at %d, later ones must not be used", e, i)
			}
		}
		return v.fail("no alternative of %s derives %s<%d,%d>", e, n.Token(), pos, end)
	case gram.Opt:
		if _, ok := n.(ast.EmptyNode); ok && end == i {
			return true
		}
		return v.Valid(e.Kids[0], n, i)
	}
	lookup, lenCheck, token, ok := gram.SeqSpec(e)
	if !ok {
		return v.fail("validator: unsupported expression %s", e)
	}
	nt, isNT := n.(parsley.NonTerminalNode)
	if !isNT || nt.Token() != token {
		return v.fail("expected a %s node for %s, got %s", token, e, n.Token())
	}
	kids := nt.Children()
	p := i
	for d, c := range kids {
		k := lookup(d)
		if k == nil {
			return v.fail("%s has more children (%d) than parsers", e, len(kids))
		}
		if c == nil {
			return v.fail("nil child")
		}
		if int(c.Pos())-v.Base != p {
			return v.fail("child %d of %s starts at %d, previous one ended at %d (spans not contiguous)", d, e, int(c.Pos())-v.Base, p)
		}
		if !v.Valid(k, c, p) {
			return false
		}
		p = int(c.ReaderPos()) - v.Base
	}
	if end != p {
		return v.fail("%s node ends at %d but its last child ends at %d", token, end, p)
	}
	m := len(kids)
	if !lenCheck(m) {
		return v.fail("%s: a match of %d element(s) is not a permitted length", e, m)
	}
	if k := lookup(m); k != nil && v.T.Ends[k.ID][p] != 0 {
		return v.fail("%s: path of %d element(s) is not maximal: element %d matches at %d", e, m, m, p)
	}
	return true
}
