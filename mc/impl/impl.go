// Package impl builds REAL parsley parsers from a gram.Grammar and places
// harness-side wrapper parsers (no library change) around and inside Memoize and
// around every sub-parser: activation-depth probe, call/result meters,
// per-return observers, yield points.
package impl

import (
	"fmt"
	"runtime"
	"strconv"
	"strings"

	"github.com/opsidian/parsley/ast"
	"github.com/opsidian/parsley/combinator"
	"github.com/opsidian/parsley/data"
	"github.com/opsidian/parsley/parser"
	"github.com/opsidian/parsley/parsley"
	"github.com/opsidian/parsley/text"
	"github.com/opsidian/parsley/text/terminal"

	"verif/mc/gram"
)

// Sentinel panics used to unwind a case; they are harness events, not library panics.
type budgetExceeded struct{ what string }
type depthExceeded struct{ msg string }

// MemoCount counts the combinator.Memoize calls made through this package since process start: together with the
// (deterministic) package initialisation it determines the cache indexes a build receives, so a case that
// depends on them can be replayed by burning indexes up to the recorded count first (BurnTo).
var MemoCount int

// BurnTo makes throw-away Memoize calls until MemoCount reaches n.
func BurnTo(n int) {
	dummy := parser.Empty()
	for MemoCount < n {
		_ = combinator.Memoize(dummy)
		MemoCount++
	}
}

// Options selects how a grammar is built.
type Options struct {
	NoMemo bool // build every memoization point WITHOUT combinator.Memoize (differential reference of C03)
	Interp parsley.Interpreter
	Bare   bool // no wrappers, no monitor: exactly the library's parsers (for free-running concurrent use)
	// BurnBeforeLastShared: number of throw-away combinator.Memoize calls made just before the LAST shared
	// sub-parser is built, so that its cache index is far away from the indexes of the parsers built before it
	BurnBeforeLastShared int
	Letters              map[byte]byte // optional substitution of terminal bytes (e.g. b -> '\n' to exercise line:column)
}

// Monitor is the per-build observer state; Reset before each parse.
type Monitor struct {
	Calls, Results          int64
	BudgetCalls, BudgetRes  int64
	active                  map[[2]int]int
	MaxActive               int
	InnerRuns               map[[2]int]int // executions of a memoized body per (memo point, pos)
	OuterCalls              int64
	InnerCalls              int64
	Hits, HitsErr, HitsList int64 // requests answered without running the body; ... that returned an error; ... a list of >= 2
	Yield                   func()
	// OnReturn observes every wrapped parser's return (e is the grammar node).
	OnReturn       func(e *gram.Expr, pos parsley.Pos, node parsley.Node, cp data.IntSet, err parsley.Error)
	OnEnter        func(e *gram.Expr, pos parsley.Pos)
	DepthViolation string
}

// Reset clears the per-parse state.
func (m *Monitor) Reset() {
	m.Calls, m.Results, m.OuterCalls, m.InnerCalls = 0, 0, 0, 0
	m.Hits, m.HitsErr, m.HitsList = 0, 0, 0
	m.active = map[[2]int]int{}
	m.InnerRuns = map[[2]int]int{}
	m.MaxActive = 0
	m.DepthViolation = ""
}

// Built is a grammar compiled to real parsers.
type Built struct {
	MemoBefore int // MemoCount when the build started
	G          *gram.Grammar
	Mon        *Monitor
	NT         []parser.Func // N<i>: outer(Memoize(inner(body)))
	Sh         []parser.Func
	Root       parsley.Parser
}

// Build compiles g.
func Build(g *gram.Grammar, opt Options) *Built {
	b := &Built{G: g, Mon: &Monitor{BudgetCalls: 1 << 62, BudgetRes: 1 << 62}, MemoBefore: MemoCount}
	b.Mon.Reset()
	b.NT = make([]parser.Func, len(g.NTs))
	b.Sh = make([]parser.Func, len(g.Shared))
	memoID := 0
	memoize := func(e *gram.Expr, body parsley.Parser) parser.Func {
		id := memoID
		memoID++
		if opt.Bare {
			MemoCount++
			return combinator.Memoize(body)
		}
		in := b.inner(id, body)
		var mid parsley.Parser = in
		if !opt.NoMemo {
			MemoCount++
			mid = combinator.Memoize(in)
		}
		return b.outer(mid)
	}
	var build func(e *gram.Expr) parsley.Parser
	build = func(e *gram.Expr) parsley.Parser {
		var p parsley.Parser
		kids := func() []parsley.Parser {
			ks := make([]parsley.Parser, len(e.Kids))
			for i, k := range e.Kids {
				ks[i] = build(k)
			}
			return ks
		}
		name := func(f parser.Func) parsley.Parser {
			if g.Named {
				return f.Name("alt" + strconv.Itoa(e.ID))
			}
			return f
		}
		bind := func(s *combinator.Sequence) parsley.Parser {
			if g.NamedSeq {
				s = s.Name("alt" + strconv.Itoa(e.ID))
			}
			if opt.Interp != nil {
				return s.Bind(opt.Interp)
			}
			return s
		}
		switch e.K {
		case gram.T:
			ch := e.Ch
			if m, ok := opt.Letters[ch]; ok {
				ch = m
			}
			p = terminal.Rune(rune(ch))
			if tok, ok := Tokens[e.Ch]; ok {
				// the same terminal under a token name of the grammar writer's choosing (here: one that the library
				// itself uses for the empty match / the end of input / a sequence): names are labels, not identities
				r, q := rune(ch), parsley.NotFoundError(strconv.Quote(string(rune(ch))))
				p = parser.Func(func(ctx *parsley.Context, _ data.IntMap, pos parsley.Pos) (parsley.Node, data.IntSet, parsley.Error) {
					if np, ok := ctx.Reader().(*text.Reader).ReadRune(pos, r); ok {
						return ast.NewTerminalNode(nil, tok, r, pos, np), data.EmptyIntSet, nil
					}
					return nil, data.EmptyIntSet, parsley.NewError(pos, q)
				})
			}
		case gram.Eps:
			p = parser.Empty()
		case gram.End:
			p = parser.End()
		case gram.NT:
			p = &b.NT[e.Ref]
		case gram.Sh:
			p = &b.Sh[e.Ref]
		case gram.Any:
			p = name(combinator.Any(kids()...))
		case gram.Choice:
			p = name(combinator.Choice(kids()...))
		case gram.Seq:
			p = bind(combinator.SeqOf(kids()...))
		case gram.SeqTry:
			p = bind(combinator.SeqTry(kids()...))
		case gram.SeqFOA:
			p = bind(combinator.SeqFirstOrAll(kids()...))
		case gram.Opt:
			p = combinator.Optional(build(e.Kids[0]))
		case gram.Many:
			p = bind(combinator.Many(build(e.Kids[0])))
		case gram.Many1:
			p = bind(combinator.Many1(build(e.Kids[0])))
		case gram.SepBy:
			p = bind(combinator.SepBy(build(e.Kids[0]), build(e.Kids[1])))
		case gram.SepBy1:
			p = bind(combinator.SepBy1(build(e.Kids[0]), build(e.Kids[1])))
		case gram.Memo:
			p = memoize(e, build(e.Kids[0]))
		case gram.SupErr:
			p = combinator.SuppressError(build(e.Kids[0]))
		case gram.Single:
			p = combinator.Single(build(e.Kids[0]))
		case gram.LTrim:
			p = text.LeftTrim(build(e.Kids[0]), text.WsMode(e.Mode))
		case gram.RTrim:
			p = text.RightTrim(build(e.Kids[0]), text.WsMode(e.Mode))
		default:
			panic(fmt.Sprintf("impl: unknown kind %v", e.K))
		}
		if opt.Bare {
			return p
		}
		return b.wrap(e, p)
	}
	for i, body := range g.NTs {
		b.NT[i] = memoize(nil, build(body))
	}
	for i, body := range g.Shared {
		if i == len(g.Shared)-1 && opt.BurnBeforeLastShared > 0 {
			BurnTo(MemoCount + opt.BurnBeforeLastShared)
		}
		if i < len(g.SharedMemo) && g.SharedMemo[i] {
			b.Sh[i] = memoize(nil, build(body))
		} else {
			bp := build(body)
			b.Sh[i] = parser.Func(func(ctx *parsley.Context, l data.IntMap, pos parsley.Pos) (parsley.Node, data.IntSet, parsley.Error) {
				return bp.Parse(ctx, l, pos)
			})
		}
	}
	if g.Root != nil {
		b.Root = build(g.Root)
	} else {
		b.Root = &b.NT[0]
	}
	return b
}

func listLen(n parsley.Node) int64 {
	if n == nil {
		return 0
	}
	if l, ok := n.(ast.NodeList); ok {
		return int64(len(l))
	}
	return 1
}

// wrap meters and observes one sub-parser.
func (b *Built) wrap(e *gram.Expr, p parsley.Parser) parsley.Parser {
	m := b.Mon
	return parser.Func(func(ctx *parsley.Context, l data.IntMap, pos parsley.Pos) (parsley.Node, data.IntSet, parsley.Error) {
		m.Calls++
		if m.Calls > m.BudgetCalls {
			panic(budgetExceeded{"calls"})
		}
		if m.Calls&2047 == 0 {
			// memory guard: a case that blows up the heap is cut like one that exceeds the work meter
			var ms runtime.MemStats
			runtime.ReadMemStats(&ms)
			if ms.HeapAlloc > 3<<30 {
				panic(budgetExceeded{"memory"})
			}
		}
		if m.Yield != nil {
			m.Yield()
		}
		if m.OnEnter != nil {
			m.OnEnter(e, pos)
		}
		node, cp, err := p.Parse(ctx, l, pos)
		m.Results += listLen(node)
		if m.Results > m.BudgetRes {
			panic(budgetExceeded{"results"})
		}
		if m.OnReturn != nil {
			m.OnReturn(e, pos, node, cp, err)
		}
		if m.Yield != nil {
			m.Yield()
		}
		return node, cp, err
	})
}

// outer counts requests to a memoization point.
func (b *Built) outer(p parsley.Parser) parser.Func {
	m := b.Mon
	return parser.Func(func(ctx *parsley.Context, l data.IntMap, pos parsley.Pos) (parsley.Node, data.IntSet, parsley.Error) {
		m.OuterCalls++
		before := m.InnerCalls
		node, cp, err := p.Parse(ctx, l, pos)
		if m.InnerCalls == before {
			m.Hits++
			if err != nil {
				m.HitsErr++
			}
			if listLen(node) >= 2 {
				m.HitsList++
			}
		}
		return node, cp, err
	})
}

// inner is placed INSIDE Memoize: it sees every real execution of the body.
// It carries the activation-depth probe of C02: the number of simultaneously
// active executions at one position must never exceed Remaining(pos)+2.
func (b *Built) inner(id int, p parsley.Parser) parser.Func {
	m := b.Mon
	return parser.Func(func(ctx *parsley.Context, l data.IntMap, pos parsley.Pos) (parsley.Node, data.IntSet, parsley.Error) {
		key := [2]int{id, int(pos)}
		m.InnerCalls++
		m.InnerRuns[key]++
		m.active[key]++
		a := m.active[key]
		if a > m.MaxActive {
			m.MaxActive = a
		}
		// the bytes remaining are computed from what the harness knows about the file (its length and base offset),
		// not asked from the reader under test
		rem := InputLen - (int(pos) - Base)
		if rem < 0 {
			rem = 0
		}
		if a > rem+2 {
			m.active[key]--
			msg := fmt.Sprintf("memoized parser #%d is active %d times at position %d with %d bytes remaining (bound %d)", id, a, int(pos), rem, rem+2)
			if m.DepthViolation == "" {
				m.DepthViolation = msg
			}
			panic(depthExceeded{msg})
		}
		defer func() { m.active[key]-- }()
		return p.Parse(ctx, l, pos)
	})
}

// Outcome of one guarded run.
type Outcome struct {
	Node      parsley.Node
	CP        data.IntSet
	Err       parsley.Error
	Panic     string // library panic (not a harness sentinel)
	Budget    string // budget sentinel
	Depth     string // depth-probe sentinel
	Calls     int64
	CallCount int
}

// Run parses with p at pos on ctx under the monitor's guards.
func (b *Built) Run(ctx *parsley.Context, p parsley.Parser, pos parsley.Pos) (o Outcome) {
	defer func() {
		if r := recover(); r != nil {
			switch v := r.(type) {
			case budgetExceeded:
				o.Budget = v.what
			case depthExceeded:
				o.Depth = v.msg
			default:
				o.Panic = fmt.Sprint(r)
			}
			// the activation counters are meaningless after an unwind
			b.Mon.active = map[[2]int]int{}
		}
		o.Calls = b.Mon.Calls
		o.CallCount = ctx.CallCount()
	}()
	o.Node, o.CP, o.Err = p.Parse(ctx, data.EmptyIntMap, pos)
	return
}

// Placement selects where the file under test sits when NewContext builds its file set; Base is the base offset
// of the file of the most recent NewContext (positions are rendered relative to it). Both are plain package
// variables: the explorer workers are single-threaded.
//
//	0: the file alone (base offset 1)
//	1: second file of the set, after a 3-byte file; reader created after the file was added
//	2: second file of the set, after a 3-byte file; reader created BEFORE the file is added (the order
//	   examples/json/json/parser_test.go uses): anything the reader copied from the file at construction is stale
//	3: the file is first registered behind a 3-byte file and the reader created, THEN the same file is registered as
//	   the only file of a fresh set (its base offset changes back to 1) and parsed through that set with the old reader
var scratch []byte

// FileName is the name NewContext gives the file under test.
var FileName = "f"

// Tokens, when set, gives the terminals of the grammars built from now on the given token names (keyed by the
// grammar's terminal byte). Render shows rune-valued terminal nodes by their rune, whatever their token.
var Tokens map[byte]string

var (
	Placement int
	Base      = 1
	InputLen  int // length of the input of the most recent NewContext
)

// NewContext makes a context for input w according to Placement.
func NewContext(w []byte) (*parsley.Context, *text.Reader, *text.File) {
	// the file is created from a scratch buffer that is overwritten right away: it must hold its own copy of the input
	scratch = append(scratch[:0], w...)
	f := text.NewFile(FileName, scratch)
	for i := range scratch {
		scratch[i] = '#'
	}
	InputLen = len(w)
	switch Placement {
	case 1:
		fs := parsley.NewFileSet(text.NewFile("pre", []byte("xyz")), f)
		r := text.NewReader(f)
		Base = int(r.Pos(0))
		return parsley.NewContext(fs, r), r, f
	case 2:
		r := text.NewReader(f)
		fs := parsley.NewFileSet(text.NewFile("pre", []byte("xyz")))
		fs.AddFile(f)
		Base = int(r.Pos(0))
		return parsley.NewContext(fs, r), r, f
	}
	if Placement == 3 {
		old := parsley.NewFileSet(text.NewFile("pre", []byte("xyz")))
		old.AddFile(f)
		r := text.NewReader(f)
		fs := parsley.NewFileSet(f)
		Base = 1
		return parsley.NewContext(fs, r), r, f
	}
	fs := parsley.NewFileSet(f)
	r := text.NewReader(f)
	Base = 1
	return parsley.NewContext(fs, r), r, f
}

// Render renders a node canonically with positions relative to base (the same
// syntax the reference uses): leaf a<i,j>, empty e<i,i>, EOF<i,i>, TOKEN(k1 k2)<i,j>.
func Render(n parsley.Node, base int) string {
	var sb strings.Builder
	render(&sb, n, base)
	return sb.String()
}

func span(sb *strings.Builder, n parsley.Node, base int) {
	sb.WriteByte('<')
	sb.WriteString(strconv.Itoa(int(n.Pos()) - base))
	sb.WriteByte(',')
	sb.WriteString(strconv.Itoa(int(n.ReaderPos()) - base))
	sb.WriteByte('>')
}

func render(sb *strings.Builder, n parsley.Node, base int) {
	switch v := n.(type) {
	case nil:
		sb.WriteString("nil")
	case ast.NodeList:
		sb.WriteString("LIST[")
		for i, k := range v {
			if i > 0 {
				sb.WriteByte(' ')
			}
			render(sb, k, base)
		}
		sb.WriteByte(']')
	case ast.EmptyNode:
		sb.WriteByte('e')
		span(sb, n, base)
	case parser.EndNode:
		sb.WriteString("EOF")
		span(sb, n, base)
	case parsley.NonTerminalNode:
		sb.WriteString(v.Token())
		sb.WriteByte('(')
		for i, k := range v.Children() {
			if i > 0 {
				sb.WriteByte(' ')
			}
			render(sb, k, base)
		}
		sb.WriteByte(')')
		span(sb, n, base)
	case *ast.TerminalNode:
		if r, ok := v.Value().(rune); ok && Tokens != nil {
			sb.WriteString(string(r))
			span(sb, n, base)
			break
		}
		sb.WriteString(v.Token())
		if r, ok := v.Value().(rune); !ok || string(r) != v.Token() {
			sb.WriteString(fmt.Sprintf("=%v", v.Value()))
		}
		span(sb, n, base)
	default:
		sb.WriteString(fmt.Sprintf("?%T:%s", n, n.Token()))
		span(sb, n, base)
	}
}

// Alternatives splits a parser result into its alternatives.
func Alternatives(n parsley.Node) []parsley.Node {
	if n == nil {
		return nil
	}
	if l, ok := n.(ast.NodeList); ok {
		return []parsley.Node(l)
	}
	return []parsley.Node{n}
}

// Guarded is the classification of a panic that escaped a guarded call.
type Guarded struct{ Panic, Budget, Depth string }

// Guard runs f (which calls into the library through b's parsers) and sorts an
// escaping panic into harness sentinels and genuine library panics.
func (b *Built) Guard(f func()) (g Guarded) {
	defer func() {
		if r := recover(); r != nil {
			switch v := r.(type) {
			case budgetExceeded:
				g.Budget = v.what
			case depthExceeded:
				g.Depth = v.msg
			default:
				g.Panic = fmt.Sprint(r)
			}
			b.Mon.active = map[[2]int]int{}
		}
	}()
	f()
	return
}
