package ix

import (
	"encoding/json"
	"errors"
	"fmt"
	"reflect"
	"strings"

	"github.com/opsidian/parsley/ast"
	"github.com/opsidian/parsley/ast/interpreter"
	"github.com/opsidian/parsley/data"
	"github.com/opsidian/parsley/parser"
	"github.com/opsidian/parsley/parsley"
	"github.com/opsidian/parsley/text"

	"verif/mc/explore"
)

// C13 — tree passes reach every node once, in the documented order. Every
// ordered tree shape up to a node bound (arity <= 3; terminal, empty and
// childless non-terminal leaves; optionally under a root alternative list) x
// every assignment of interpreter capability to the non-terminals x every single
// injected failure x every stop point, real passes against a recursive model.

// shape is an ordered tree: kind 'N' (non-terminal with kids), 'T' terminal, 'E' empty, 'Z' childless non-terminal,
// 'F' a non-terminal of a type the library does not know (a user's own parsley.NonTerminalNode implementation: no
// Walk, StaticCheck or Transform method of its own), 'L' a list of alternatives INSIDE the tree (kids = alternatives)
type shape struct {
	kind byte
	kids []*shape
}

func (s *shape) String() string {
	if len(s.kids) == 0 {
		return string(s.kind)
	}
	parts := make([]string, len(s.kids))
	for i, k := range s.kids {
		parts[i] = k.String()
	}
	return string(s.kind) + "(" + strings.Join(parts, " ") + ")"
}

func parseShape(s string) (*shape, string) {
	s = strings.TrimLeft(s, " ")
	if s == "" {
		return nil, ""
	}
	if strings.HasPrefix(s, "N(") || strings.HasPrefix(s, "F(") || strings.HasPrefix(s, "L(") {
		n := &shape{kind: s[0]}
		s = s[2:]
		for {
			s = strings.TrimLeft(s, " ")
			if strings.HasPrefix(s, ")") {
				return n, s[1:]
			}
			k, rest := parseShape(s)
			if k == nil {
				return nil, ""
			}
			n.kids = append(n.kids, k)
			s = rest
		}
	}
	return &shape{kind: s[0]}, s[1:]
}

var shapeCache = map[int][]*shape{}

// shapesOfSize returns all shapes with exactly n nodes.
func shapesOfSize(n int) []*shape {
	if l, ok := shapeCache[n]; ok {
		return l
	}
	var out []*shape
	if n == 1 {
		out = []*shape{{kind: 'T'}, {kind: 'E'}, {kind: 'Z'}}
	} else {
		for i := 1; i <= n-1; i++ { // arity 1
			if i == n-1 {
				for _, a := range shapesOfSize(i) {
					out = append(out, &shape{kind: 'N', kids: []*shape{a}})
				}
			}
		}
		for i := 1; i <= n-2; i++ { // arity 2
			for _, a := range shapesOfSize(i) {
				for _, b := range shapesOfSize(n - 1 - i) {
					out = append(out, &shape{kind: 'N', kids: []*shape{a, b}})
				}
			}
		}
		for i := 1; i <= n-3; i++ { // arity 3
			for j := 1; i+j <= n-2; j++ {
				for _, a := range shapesOfSize(i) {
					for _, b := range shapesOfSize(j) {
						for _, c := range shapesOfSize(n - 1 - i - j) {
							out = append(out, &shape{kind: 'N', kids: []*shape{a, b, c}})
						}
					}
				}
			}
		}
	}
	shapeCache[n] = out
	return out
}

// relabel returns a copy of s whose first len(labels) inner nodes (pre-order) are of the given kinds
func relabel(s *shape, labels []byte) *shape {
	i := 0
	var cp func(s *shape) *shape
	cp = func(s *shape) *shape {
		c := &shape{kind: s.kind}
		if len(s.kids) > 0 {
			if i < len(labels) {
				c.kind = labels[i]
			}
			i++
		}
		for _, k := range s.kids {
			c.kids = append(c.kids, cp(k))
		}
		return c
	}
	return cp(s)
}

func countInner(s *shape) int {
	n := 0
	if len(s.kids) > 0 {
		n = 1
	}
	for _, k := range s.kids {
		n += countInner(k)
	}
	return n
}

func hasForeign(s *shape) bool {
	if s.kind == 'F' || s.kind == 'L' {
		return true
	}
	for _, k := range s.kids {
		if hasForeign(k) {
			return true
		}
	}
	return false
}

// foreignNT is a user-defined non-terminal: it only offers what parsley.NonTerminalNode requires.
type foreignNT struct {
	token     string
	kids      []parsley.Node
	pos, rpos parsley.Pos
}

func (f *foreignNT) Token() string            { return f.token }
func (f *foreignNT) Schema() interface{}      { return nil }
func (f *foreignNT) Pos() parsley.Pos         { return f.pos }
func (f *foreignNT) ReaderPos() parsley.Pos   { return f.rpos }
func (f *foreignNT) Children() []parsley.Node { return f.kids }
func (f *foreignNT) Value(interface{}) (interface{}, parsley.Error) {
	return nil, parsley.NewError(f.pos, parsley.ErrNoValue)
}

// capabilities of a non-terminal's interpreter
const (
	capNil = iota
	capPlain
	capChecker
	capTransformer
	capBoth
	capIdentity // a transformer that hands back the node it was given (a legal no-op): the node's own transformer was
	// applied, so the library must not go on and rebuild the children
	nCaps
)

var capNames = []string{"nil", "plain", "checker", "transformer", "both", "identity-transformer"}

type recorder struct {
	log      []string
	failAt   int // node id whose interpreter fails in the running pass (-1: none)
	nodeByID map[int]parsley.Node
}

type baseInterp struct {
	id  int
	rec *recorder
}

func (b baseInterp) Eval(userCtx interface{}, node parsley.NonTerminalNode) (interface{}, parsley.Error) {
	same := "exactly its node"
	if b.rec.nodeByID[b.id] != parsley.Node(node) {
		same = "A DIFFERENT NODE (" + node.Token() + ")"
	}
	vals := []string{}
	for _, c := range node.Children() {
		v, err := parsley.EvaluateNode(userCtx, c)
		if err != nil {
			if errors.Is(err.Cause(), parsley.ErrNoValue) {
				continue
			}
			return nil, err
		}
		vals = append(vals, fmt.Sprint(v))
	}
	b.rec.log = append(b.rec.log, fmt.Sprintf("eval n%d gets %s", b.id, same))
	if b.rec.failAt == b.id {
		return nil, parsley.NewErrorf(node.Pos(), "eval of n%d failed", b.id)
	}
	return fmt.Sprintf("v%d(%s)", b.id, strings.Join(vals, ",")), nil
}

func (b baseInterp) check(userCtx interface{}, node parsley.NonTerminalNode) (interface{}, parsley.Error) {
	var seen []string
	for _, c := range node.Children() {
		seen = append(seen, fmt.Sprint(c.Schema()))
	}
	b.rec.log = append(b.rec.log, fmt.Sprintf("check n%d sees %v", b.id, seen))
	if b.rec.failAt == b.id {
		return nil, parsley.NewErrorf(node.Pos(), "check of n%d failed", b.id)
	}
	return fmt.Sprintf("s%d", b.id), nil
}

func (b baseInterp) transform(userCtx interface{}, node parsley.Node) (parsley.Node, parsley.Error) {
	b.rec.log = append(b.rec.log, fmt.Sprintf("transform n%d", b.id))
	if b.rec.failAt == b.id {
		return nil, parsley.NewErrorf(node.Pos(), "transform of n%d failed", b.id)
	}
	return ast.NewTerminalNode(nil, fmt.Sprintf("t%d", b.id), nil, node.Pos(), node.ReaderPos()), nil
}

type identityInterp struct{ baseInterp }

func (c identityInterp) TransformNode(u interface{}, n parsley.Node) (parsley.Node, parsley.Error) {
	c.rec.log = append(c.rec.log, fmt.Sprintf("transform n%d", c.id))
	if c.rec.failAt == c.id {
		return nil, parsley.NewErrorf(n.Pos(), "transform of n%d failed", c.id)
	}
	return n, nil
}

type plainInterp struct{ baseInterp }
type checkerInterp struct{ baseInterp }
type transformerInterp struct{ baseInterp }
type bothInterp struct{ baseInterp }

func (c checkerInterp) StaticCheck(u interface{}, n parsley.NonTerminalNode) (interface{}, parsley.Error) {
	return c.check(u, n)
}
func (c bothInterp) StaticCheck(u interface{}, n parsley.NonTerminalNode) (interface{}, parsley.Error) {
	return c.check(u, n)
}
func (c transformerInterp) TransformNode(u interface{}, n parsley.Node) (parsley.Node, parsley.Error) {
	return c.transform(u, n)
}
func (c bothInterp) TransformNode(u interface{}, n parsley.Node) (parsley.Node, parsley.Error) {
	return c.transform(u, n)
}

// mnode is the model's view of the tree
type mnode struct {
	id    int
	kind  byte
	cap   int
	kids  []*mnode
	real  parsley.Node
	token string
}

type c13Tree struct {
	root  *mnode   // first alternative
	alts  []*mnode // all alternatives when under a list (len>=1), else nil
	nodes []*mnode // by id
	rec   *recorder
	rootN parsley.Node
	nonTs []*mnode
}

func hasChecker(c int) bool     { return c == capChecker || c == capBoth }
func hasTransformer(c int) bool { return c == capTransformer || c == capBoth || c == capIdentity }

// build makes the real tree for shape s with capabilities caps (per non-terminal, in pre-order) and list mode.
func buildTree(s *shape, caps []int, listAlts int) *c13Tree {
	t := &c13Tree{rec: &recorder{failAt: -1, nodeByID: map[int]parsley.Node{}}}
	pos := 1
	capIdx := 0
	var mk func(s *shape) *mnode
	mk = func(s *shape) *mnode {
		m := &mnode{id: len(t.nodes), kind: s.kind}
		t.nodes = append(t.nodes, m)
		m.token = fmt.Sprintf("n%d", m.id)
		interp := func() parsley.Interpreter {
			c := capPlain
			if capIdx < len(caps) {
				c = caps[capIdx]
			}
			capIdx++
			m.cap = c
			t.nonTs = append(t.nonTs, m)
			b := baseInterp{m.id, t.rec}
			switch c {
			case capNil:
				return nil
			case capChecker:
				return checkerInterp{b}
			case capTransformer:
				return transformerInterp{b}
			case capBoth:
				return bothInterp{b}
			case capIdentity:
				return identityInterp{b}
			}
			return plainInterp{b}
		}
		switch s.kind {
		case 'T':
			m.real = ast.NewTerminalNode(fmt.Sprintf("lit%d", m.id), m.token, fmt.Sprintf("x%d", m.id), parsley.Pos(pos), parsley.Pos(pos+1))
			pos++
		case 'E':
			m.real = ast.EmptyNode(parsley.Pos(pos))
			pos++ // empty nodes are values: distinct positions keep them distinguishable for the visit log
		case 'Z':
			ip := interp()
			m.real = ast.NewEmptyNonTerminalNode(m.token, parsley.Pos(pos), ip)
			pos++
		case 'N':
			ip := interp() // pre-order numbering of capabilities
			var kids []parsley.Node
			for _, k := range s.kids {
				km := mk(k)
				m.kids = append(m.kids, km)
				kids = append(kids, km.real)
			}
			m.real = ast.NewNonTerminalNode(m.token, kids, ip)
		case 'F', 'L':
			var kids []parsley.Node
			for _, k := range s.kids {
				km := mk(k)
				m.kids = append(m.kids, km)
				kids = append(kids, km.real)
			}
			if s.kind == 'L' {
				m.real = ast.NodeList(kids)
			} else {
				m.real = &foreignNT{m.token, kids, kids[0].Pos(), kids[len(kids)-1].ReaderPos()}
			}
		}
		if s.kind != 'L' { // a list is a slice: it has no identity to record (and no interpreter to hand it to)
			t.rec.nodeByID[m.id] = m.real
		}
		return m
	}
	t.root = mk(s)
	t.rootN = t.root.real
	if listAlts > 0 {
		t.alts = []*mnode{t.root}
		l := ast.NodeList{t.root.real}
		for i := 1; i < listAlts; i++ {
			alt := mk(&shape{kind: 'N', kids: []*shape{{kind: 'T'}}})
			t.alts = append(t.alts, alt)
			l = append(l, alt.real)
		}
		t.rootN = l
	}
	return t
}

// model: post-order walk sequence (ids; -1 stands for the root alternative list itself)
func (t *c13Tree) walkOrder() []int {
	var out []int
	var rec func(m *mnode)
	rec = func(m *mnode) {
		if m.kind == 'L' {
			rec(m.kids[0]) // a list delegates to its first alternative, then the list itself is visited
		} else {
			for _, k := range m.kids {
				rec(k)
			}
		}
		out = append(out, m.id)
	}
	rec(t.root)
	if t.alts != nil {
		out = append(out, -1) // a list delegates to its first alternative, then the list itself is visited
	}
	return out
}

// idOf identifies a visited node: its id, -1 for the root alternative list, -2 for a node that is not in the tree
func (t *c13Tree) idOf(n parsley.Node) int {
	if l, isList := n.(ast.NodeList); isList {
		for _, m := range t.nodes {
			if ml, ok := m.real.(ast.NodeList); ok && m.kind == 'L' && len(ml) == len(l) && len(l) > 0 && &ml[0] == &l[0] {
				return m.id
			}
		}
		return -1
	}
	for _, m := range t.nodes {
		if m.kind != 'L' && m.real == n {
			return m.id
		}
	}
	return -2
}

// plain renders the model's view of an untouched subtree the way render shows the real one
func plain(m *mnode) string {
	switch m.kind {
	case 'E':
		return "EMPTY"
	case 'T', 'Z':
		if m.kind == 'Z' {
			return m.token + "()"
		}
		return m.token
	}
	p := make([]string, len(m.kids))
	for i, k := range m.kids {
		p[i] = plain(k)
	}
	if m.kind == 'L' {
		return "LIST[" + strings.Join(p, " ") + "]"
	}
	return m.token + "(" + strings.Join(p, " ") + ")"
}

func (t *c13Tree) render(n parsley.Node) string {
	switch v := n.(type) {
	case ast.NodeList:
		p := make([]string, len(v))
		for i, k := range v {
			p[i] = t.render(k)
		}
		return "LIST[" + strings.Join(p, " ") + "]"
	case parsley.NonTerminalNode:
		p := make([]string, len(v.Children()))
		for i, k := range v.Children() {
			p[i] = t.render(k)
		}
		return v.Token() + "(" + strings.Join(p, " ") + ")"
	case nil:
		return "nil"
	}
	return n.Token()
}

type c13Case struct {
	Shape string `json:"shape"`
	Caps  []int  `json:"capabilities"`
	List  int    `json:"list_alternatives"`
}

func (c c13Case) String() string {
	names := make([]string, len(c.Caps))
	for i, x := range c.Caps {
		names[i] = capNames[x]
	}
	return fmt.Sprintf("tree %s, interpreter capabilities (pre-order) %v, root alternatives %d", c.Shape, names, c.List)
}

func c13One(res *explore.Result, s *shape, caps []int, listAlts int, verbose bool) {
	cs := c13Case{s.String(), caps, listAlts}
	viol := func(key, what string) { res.Violate(key, cs.String()+": "+what, cs) }
	note := func(format string, a ...any) {
		if verbose {
			res.Notes = append(res.Notes, fmt.Sprintf(format, a...))
		}
	}
	res.Add("states", 1)

	// ---- Walk: every stop point
	{
		t := buildTree(s, caps, listAlts)
		order := t.walkOrder()
		for stop := -1; stop < len(order); stop++ {
			var visited []int
			res.Add("transitions", 1)
			var ret bool
			if pm := guard(func() {
				ret = parsley.Walk(t.rootN, func(n parsley.Node) bool {
					visited = append(visited, t.idOf(n))
					return len(visited)-1 == stop
				})
			}); pm != "" {
				viol("panic:Walk", "Walk panicked: "+pm)
				break
			}
			want := order
			if stop >= 0 {
				want = order[:stop+1]
			}
			if !reflect.DeepEqual(visited, append([]int{}, want...)) || ret != (stop >= 0) {
				viol("Walk", fmt.Sprintf("Walk stopping at visit %d visited %v (returned %v), model %v (returns %v); -1 is the root alternative list", stop, visited, ret, want, stop >= 0))
				break
			}
		}
		note("Walk order %v", order)
	}

	// ---- StaticCheck: every single failure point among the checkers reached
	{
		probe := buildTree(s, caps, listAlts)
		order := probe.walkOrder()
		fails := []int{-1}
		for _, id := range order {
			if id >= 0 && hasChecker(probe.nodes[id].cap) && (probe.nodes[id].kind == 'N' || probe.nodes[id].kind == 'Z') {
				fails = append(fails, id)
			}
		}
		for _, failAt := range fails {
			t := buildTree(s, caps, listAlts)
			t.rec.failAt = failAt
			res.Add("transitions", 1)
			var err parsley.Error
			if pm := guard(func() { err = parsley.StaticCheck(nil, t.rootN) }); pm != "" {
				viol("panic:StaticCheck", "StaticCheck panicked: "+pm)
				break
			}
			// model
			var wantLog []string
			schema := map[int]string{}
			wantErr := ""
			for _, m := range t.nodes {
				if m.kind == 'T' {
					schema[m.id] = fmt.Sprintf("lit%d", m.id) // terminals carry the schema they were built with
				}
			}
			for _, id := range order {
				if id < 0 {
					continue
				}
				m := t.nodes[id]
				if (m.kind == 'N' || m.kind == 'Z') && hasChecker(m.cap) {
					var seen []string
					for _, k := range m.kids {
						if sc, ok := schema[k.id]; ok {
							seen = append(seen, sc)
						} else {
							seen = append(seen, "<nil>")
						}
					}
					wantLog = append(wantLog, fmt.Sprintf("check n%d sees %v", id, seen))
					if id == failAt {
						wantErr = fmt.Sprintf("check of n%d failed", id)
						break
					}
					schema[id] = fmt.Sprintf("s%d", id)
				}
			}
			gotErr := ""
			if err != nil {
				gotErr = err.Error()
			}
			if !reflect.DeepEqual(append([]string{}, t.rec.log...), append([]string{}, wantLog...)) || gotErr != wantErr {
				viol("StaticCheck", fmt.Sprintf("StaticCheck (failure injected at n%d): checker calls %v error %q; model: %v error %q", failAt, t.rec.log, gotErr, wantLog, wantErr))
				break
			}
			bad := false
			for _, m := range t.nodes {
				want, ok := schema[m.id]
				got := m.real.Schema()
				if (!ok && got != nil) || (ok && fmt.Sprint(got) != want) {
					viol("StaticCheck:schema", fmt.Sprintf("StaticCheck (failure at n%d): Schema() of n%d is %v, model %q", failAt, m.id, got, want))
					bad = true
					break
				}
			}
			if bad {
				break
			}
		}
	}

	// ---- StaticCheck run AGAIN over the same node objects (first pass succeeded): every checker must run again,
	// see the same child schemas, and an error it returns now must be reported
	{
		probe := buildTree(s, caps, listAlts)
		order := probe.walkOrder()
		var checkers []int
		for _, id := range order {
			if id >= 0 && hasChecker(probe.nodes[id].cap) && (probe.nodes[id].kind == 'N' || probe.nodes[id].kind == 'Z') {
				checkers = append(checkers, id)
			}
		}
		for _, failAt := range append([]int{-1}, checkers...) {
			if len(checkers) == 0 {
				break
			}
			t := buildTree(s, caps, listAlts)
			if pm := guard(func() { _ = parsley.StaticCheck(nil, t.rootN) }); pm != "" {
				break // reported by the single-pass section
			}
			t.rec.log = nil
			t.rec.failAt = failAt
			res.Add("transitions", 1)
			var err parsley.Error
			if pm := guard(func() { err = parsley.StaticCheck(nil, t.rootN) }); pm != "" {
				viol("panic:StaticCheck", "second StaticCheck pass panicked: "+pm)
				break
			}
			var wantLog []string
			wantErr := ""
			for _, id := range checkers {
				m := t.nodes[id]
				var seen []string
				for _, k := range m.kids {
					switch {
					case k.kind == 'T':
						seen = append(seen, fmt.Sprintf("lit%d", k.id))
					case (k.kind == 'N' || k.kind == 'Z') && hasChecker(k.cap):
						seen = append(seen, fmt.Sprintf("s%d", k.id))
					default:
						seen = append(seen, "<nil>")
					}
				}
				wantLog = append(wantLog, fmt.Sprintf("check n%d sees %v", id, seen))
				if id == failAt {
					wantErr = fmt.Sprintf("check of n%d failed", id)
					break
				}
			}
			gotErr := ""
			if err != nil {
				gotErr = err.Error()
			}
			if !reflect.DeepEqual(append([]string{}, t.rec.log...), append([]string{}, wantLog...)) || gotErr != wantErr {
				viol("StaticCheck:second-pass", fmt.Sprintf("a second StaticCheck pass over the same tree (failure injected at n%d): checker calls %v error %q; model: %v error %q", failAt, t.rec.log, gotErr, wantLog, wantErr))
				break
			}
		}
	}

	// ---- Transform: every single failure point among the transformers reached
	{
		probe := buildTree(s, caps, listAlts)
		var reach []int
		var collect func(m *mnode)
		collect = func(m *mnode) {
			if m.kind == 'N' || m.kind == 'Z' {
				if hasTransformer(m.cap) {
					reach = append(reach, m.id)
					return
				}
				for _, k := range m.kids {
					collect(k)
				}
			}
		}
		if probe.alts == nil {
			collect(probe.root)
		}
		for _, failAt := range append([]int{-1}, reach...) {
			t := buildTree(s, caps, listAlts)
			t.rec.failAt = failAt
			res.Add("transitions", 1)
			var out parsley.Node
			var err parsley.Error
			if pm := guard(func() { out, err = parsley.Transform(nil, t.rootN) }); pm != "" {
				viol("panic:Transform", "Transform panicked: "+pm)
				break
			}
			var wantLog []string
			wantErr := ""
			var model func(m *mnode) string
			model = func(m *mnode) string {
				if wantErr != "" {
					return ""
				}
				if m.kind == 'N' || m.kind == 'Z' {
					if hasTransformer(m.cap) {
						wantLog = append(wantLog, fmt.Sprintf("transform n%d", m.id))
						if m.id == failAt {
							wantErr = fmt.Sprintf("transform of n%d failed", m.id)
							return ""
						}
						if m.cap == capIdentity {
							return plain(m) // handed back as it is: children untouched, nothing below it called
						}
						return fmt.Sprintf("t%d", m.id)
					}
					var p []string
					for _, k := range m.kids {
						p = append(p, model(k))
						if wantErr != "" {
							return ""
						}
					}
					return m.token + "(" + strings.Join(p, " ") + ")"
				}
				// terminals, empty nodes, foreign non-terminals and lists are not transformable: returned as they are,
				// nothing below them is called
				return plain(m)
			}
			want := ""
			if t.alts != nil {
				want = t.render(t.rootN) // an alternative list is not transformable: returned unchanged, nothing called
			} else {
				want = model(t.root)
			}
			gotErr := ""
			if err != nil {
				gotErr = err.Error()
			}
			got := ""
			if err == nil {
				got = t.render(out)
			}
			if wantErr != "" {
				want = ""
			}
			if !reflect.DeepEqual(append([]string{}, t.rec.log...), append([]string{}, wantLog...)) || gotErr != wantErr || got != want {
				viol("Transform", fmt.Sprintf("Transform (failure injected at n%d): calls %v, result %s error %q; model: calls %v, result %s error %q", failAt, t.rec.log, got, gotErr, wantLog, want, wantErr))
				break
			}
		}
	}

	// ---- parsley.Parse with BOTH passes enabled on the context: the tree is transformed first and the static check
	// then runs over the TRANSFORMED tree (the one Parse returns); every single failure point
	{
		probe := buildTree(s, caps, listAlts)
		// reach: the nodes Transform gets to (a chain of library non-terminals without a transformer from the root)
		replaced := map[int]bool{}
		var tlog []int
		var reach func(m *mnode)
		reach = func(m *mnode) {
			if m.kind == 'N' || m.kind == 'Z' {
				if hasTransformer(m.cap) {
					if m.cap != capIdentity {
						replaced[m.id] = true
					}
					tlog = append(tlog, m.id)
					return
				}
				if m.kind == 'N' {
					for _, k := range m.kids {
						reach(k)
					}
				}
			}
		}
		if probe.alts == nil {
			reach(probe.root)
		}
		// checkers that run afterwards, in post-order over what is left of the tree
		var clog []int
		var post func(m *mnode)
		post = func(m *mnode) {
			if replaced[m.id] {
				return
			}
			if m.kind == 'L' {
				post(m.kids[0])
				return
			}
			for _, k := range m.kids {
				post(k)
			}
			if (m.kind == 'N' || m.kind == 'Z') && hasChecker(m.cap) {
				clog = append(clog, m.id)
			}
		}
		post(probe.root)
		fails := []int{-1}
		fails = append(fails, tlog...)
		for _, id := range clog {
			dup := false
			for _, x := range fails {
				dup = dup || x == id
			}
			if !dup {
				fails = append(fails, id)
			}
		}
		for _, failAt := range fails {
			t := buildTree(s, caps, listAlts)
			t.rec.failAt = failAt
			res.Add("transitions", 1)
			f := text.NewFile("f", []byte(strings.Repeat("x", 64)))
			ctx := parsley.NewContext(parsley.NewFileSet(f), text.NewReader(f))
			ctx.EnableTransformation()
			ctx.EnableStaticCheck()
			root := parser.Func(func(c *parsley.Context, _ data.IntMap, _ parsley.Pos) (parsley.Node, data.IntSet, parsley.Error) {
				// like a real grammar that stopped a repetition somewhere to the right, the parser leaves a (non-fatal)
				// furthest error in the context although it succeeds: it must not replace what a pass reports
				c.SetError(parsley.NewError(f.Pos(60), parsley.NotFoundError("more input")))
				return t.rootN, data.EmptyIntSet, nil
			})
			var out parsley.Node
			var err error
			if pm := guard(func() { out, err = parsley.Parse(ctx, root) }); pm != "" {
				viol("panic:Parse", "Parse with transformation and static check enabled panicked: "+pm)
				break
			}
			var wantLog []string
			wantErr := ""
			for _, id := range tlog {
				wantLog = append(wantLog, fmt.Sprintf("transform n%d", id))
				if id == failAt {
					wantErr = fmt.Sprintf("transform of n%d failed", id)
					break
				}
			}
			schema := map[int]string{}
			if wantErr == "" {
				for _, id := range clog {
					m := t.nodes[id]
					var seen []string
					for _, k := range m.kids {
						switch {
						case replaced[k.id]:
							seen = append(seen, "<nil>") // the transformer's replacement carries no schema
						case k.kind == 'T':
							seen = append(seen, fmt.Sprintf("lit%d", k.id))
						default:
							if sc, ok := schema[k.id]; ok {
								seen = append(seen, sc)
							} else {
								seen = append(seen, "<nil>")
							}
						}
					}
					wantLog = append(wantLog, fmt.Sprintf("check n%d sees %v", id, seen))
					if id == failAt {
						wantErr = fmt.Sprintf("check of n%d failed", id)
						break
					}
					schema[id] = fmt.Sprintf("s%d", id)
				}
			}
			gotErr := ""
			if err != nil {
				gotErr = err.Error()
			}
			okErr := (wantErr == "" && gotErr == "") || (wantErr != "" && strings.HasPrefix(gotErr, wantErr))
			if !reflect.DeepEqual(append([]string{}, t.rec.log...), append([]string{}, wantLog...)) || !okErr || (wantErr == "") != (out != nil) {
				viol("Parse:transform+staticcheck", fmt.Sprintf("Parse with both passes enabled (failure injected at n%d): calls %v, error %q, node returned: %v; model: calls %v, error %q", failAt, t.rec.log, gotErr, out != nil, wantLog, wantErr))
				break
			}
			if wantErr == "" {
				bad := false
				for id, want := range schema {
					if got := t.nodes[id].real.Schema(); fmt.Sprint(got) != want {
						viol("Parse:transform+staticcheck", fmt.Sprintf("Parse with both passes enabled: Schema() of n%d in the returned tree is %v, model %q", id, got, want))
						bad = true
						break
					}
				}
				if bad {
					break
				}
			}
		}
	}

	// ---- Evaluate: only when every non-terminal has an interpreter and the root is a single tree
	allInterp := true
	{
		probe := buildTree(s, caps, listAlts)
		for _, m := range probe.nonTs {
			if m.cap == capNil {
				allInterp = false
			}
		}
		if allInterp && !hasForeign(s) && probe.alts == nil && (probe.root.kind == 'N' || probe.root.kind == 'Z') {
			var ids []int
			var post func(m *mnode)
			post = func(m *mnode) {
				for _, k := range m.kids {
					post(k)
				}
				if m.kind == 'N' || m.kind == 'Z' {
					ids = append(ids, m.id)
				}
			}
			post(probe.root)
			for _, failAt := range append([]int{-1}, ids...) {
				t := buildTree(s, caps, listAlts)
				t.rec.failAt = failAt
				res.Add("transitions", 1)
				var val interface{}
				var err parsley.Error
				if pm := guard(func() { val, err = parsley.EvaluateNode(nil, t.rootN) }); pm != "" {
					viol("panic:EvaluateNode", "EvaluateNode panicked: "+pm)
					break
				}
				var wantLog []string
				wantErr := ""
				var model func(m *mnode) (string, bool)
				model = func(m *mnode) (string, bool) { // value, hasValue
					switch m.kind {
					case 'T':
						return fmt.Sprintf("x%d", m.id), true
					case 'E':
						return "", false
					}
					var vals []string
					for _, k := range m.kids {
						v, ok := model(k)
						if wantErr != "" {
							return "", false
						}
						if ok {
							vals = append(vals, v)
						}
					}
					wantLog = append(wantLog, fmt.Sprintf("eval n%d gets exactly its node", m.id))
					if m.id == failAt {
						wantErr = fmt.Sprintf("eval of n%d failed", m.id)
						return "", false
					}
					return fmt.Sprintf("v%d(%s)", m.id, strings.Join(vals, ",")), true
				}
				want, _ := model(t.root)
				gotErr := ""
				if err != nil {
					gotErr = err.Error()
				}
				got := ""
				if err == nil {
					got = fmt.Sprint(val)
				}
				if wantErr != "" {
					want = ""
				}
				if !reflect.DeepEqual(append([]string{}, t.rec.log...), append([]string{}, wantLog...)) || gotErr != wantErr || got != want {
					viol("EvaluateNode", fmt.Sprintf("EvaluateNode (failure injected at n%d): calls %v, value %q error %q; model: calls %v, value %q error %q", failAt, t.rec.log, got, gotErr, wantLog, want, wantErr))
					break
				}
			}
		}
	}
	res.Add("traces", 1)
}

// builtins: Select / Array / Object pick the documented children
func c13Builtins(res *explore.Result) {
	cs := c13Case{Shape: "builtins"}
	term := func(i int) parsley.Node {
		return ast.NewTerminalNode(fmt.Sprintf("sch%d", i), "T", fmt.Sprintf("v%d", i), parsley.Pos(i+1), parsley.Pos(i+2))
	}
	for arity := 1; arity <= 4; arity++ {
		for sel := 0; sel < arity; sel++ {
			kids := make([]parsley.Node, arity)
			for i := range kids {
				kids[i] = term(i)
			}
			n := ast.NewNonTerminalNode("SEL", kids, interpreter.Select(sel))
			res.Add("transitions", 1)
			v, err := parsley.EvaluateNode(nil, n)
			if err != nil || v != fmt.Sprintf("v%d", sel) {
				res.Violate("Select", fmt.Sprintf("Select(%d) over %d children evaluates to %v, %v; expected child %d's value", sel, arity, v, err, sel), cs)
			}
			if e := parsley.StaticCheck(nil, n); e != nil || n.Schema() != fmt.Sprintf("sch%d", sel) {
				res.Violate("Select", fmt.Sprintf("Select(%d) over %d children: schema %v, %v; expected child %d's schema", sel, arity, n.Schema(), e, sel), cs)
			}
		}
	}
	for count := 0; count <= 4; count++ { // values separated by separators: v0 , v1 , v2
		var kids []parsley.Node
		var want []interface{}
		for i := 0; i < count; i++ {
			if i > 0 {
				kids = append(kids, ast.NewTerminalNode(nil, ",", ',', parsley.Pos(10*i), parsley.Pos(10*i+1)))
			}
			kids = append(kids, term(i))
			want = append(want, fmt.Sprintf("v%d", i))
		}
		var n parsley.Node
		if count == 0 {
			n = ast.NewEmptyNonTerminalNode("ARR", parsley.Pos(1), interpreter.Array())
			want = []interface{}{}
		} else {
			n = ast.NewNonTerminalNode("ARR", kids, interpreter.Array())
		}
		res.Add("transitions", 1)
		before := fmt.Sprint(n)
		v, err := parsley.EvaluateNode(nil, n)
		if err != nil || !reflect.DeepEqual(v, want) {
			res.Violate("Array", fmt.Sprintf("Array over %d values evaluates to %v, %v; expected %v", count, v, err, want), cs)
		}
		// evaluating a node only reads it: the tree reads as before, and a second evaluation gives the same value
		if v2, err2 := parsley.EvaluateNode(nil, n); fmt.Sprint(n) != before || err2 != nil || !reflect.DeepEqual(v2, want) {
			res.Violate("Array", fmt.Sprintf("Array over %d values: after one evaluation the node reads %v (before: %s) and evaluates to %v, %v", count, n, before, v2, err2), cs)
		}
		// Object: key : value pairs separated by commas; duplicate key last wins
		var okids []parsley.Node
		wantObj := map[string]interface{}{}
		for i := 0; i < count; i++ {
			if i > 0 {
				okids = append(okids, ast.NewTerminalNode(nil, ",", ',', parsley.Pos(10*i), parsley.Pos(10*i+1)))
			}
			key := fmt.Sprintf("k%d", i%3)
			kvKids := []parsley.Node{
				ast.NewTerminalNode(nil, "STRING", key, parsley.Pos(1), parsley.Pos(2)),
				ast.NewTerminalNode(nil, ":", ':', parsley.Pos(2), parsley.Pos(3)),
				term(i),
			}
			// Object is documented to read child 0 as the key and child 2 as the value; a pair node may have more
			// children behind them (a trailing flag, a comment)
			for extra := 0; extra < count%3; extra++ {
				kvKids = append(kvKids, ast.NewTerminalNode(nil, "FLAG", fmt.Sprintf("flag%d", extra), parsley.Pos(3), parsley.Pos(4)))
			}
			kv := ast.NewNonTerminalNode("KV", kvKids, nil)
			okids = append(okids, kv)
			wantObj[key] = fmt.Sprintf("v%d", i)
		}
		var on parsley.Node
		if count == 0 {
			on = ast.NewEmptyNonTerminalNode("OBJ", parsley.Pos(1), interpreter.Object())
		} else {
			on = ast.NewNonTerminalNode("OBJ", okids, interpreter.Object())
		}
		res.Add("transitions", 1)
		obefore := fmt.Sprint(on)
		ov, oerr := parsley.EvaluateNode(nil, on)
		if oerr != nil || !reflect.DeepEqual(ov, wantObj) {
			res.Violate("Object", fmt.Sprintf("Object over %d pairs evaluates to %v, %v; expected %v", count, ov, oerr, wantObj), cs)
		}
		ov2, oerr2 := parsley.EvaluateNode(nil, on)
		if fmt.Sprint(on) != obefore || oerr2 != nil || !reflect.DeepEqual(ov2, wantObj) {
			res.Violate("Object", fmt.Sprintf("Object over %d pairs: after one evaluation the node reads %v (before: %s) and evaluates to %v, %v", count, on, obefore, ov2, oerr2), cs)
		}
		// two evaluations hand out two values: what a caller does with its result must not show in the other
		if m1, ok := ov.(map[string]interface{}); ok {
			m1["written by the caller of the first evaluation"] = true
			if m2, ok2 := ov2.(map[string]interface{}); ok2 && len(m2) != len(wantObj) {
				res.Violate("Object", fmt.Sprintf("Object over %d pairs: the values of two evaluations share one map (a key written into the first shows in the second)", count), cs)
			}
		}
	}
}

func c13MaxNodes(tier string) int {
	if tier == "thorough" {
		return 7
	}
	return 6
}

func countNT(s *shape) int {
	n := 0
	if s.kind == 'N' || s.kind == 'Z' {
		n = 1
	}
	for _, k := range s.kids {
		n += countNT(k)
	}
	return n
}

func c13Run(env *explore.Env) *explore.Result {
	res := explore.NewResult()
	if env.Shard == 0 {
		c13Builtins(res)
	}
	// deep trees: chains of d nested non-terminals (with and without a sibling leaf on every level) for every depth up to
	// 70 and around 128 and 256 — the depths at which an explicit stack or a pre-sized buffer inside a pass would grow
	depths := []int{126, 127, 128, 129, 130, 255, 256, 257, 258}
	for d := 1; d <= 70; d++ {
		depths = append(depths, d)
	}
	for i, d := range depths {
		if !env.Mine(int64(i)) {
			continue
		}
		for _, sibling := range []bool{false, true} {
			sh := &shape{kind: 'T'}
			for k := 0; k < d; k++ {
				if sibling {
					sh = &shape{kind: 'N', kids: []*shape{{kind: 'T'}, sh}}
				} else {
					sh = &shape{kind: 'N', kids: []*shape{sh}}
				}
			}
			capsets := [][]int{make([]int, d), make([]int, d)}
			for k := 0; k < d; k++ {
				capsets[0][k], capsets[1][k] = capPlain, capChecker
			}
			if d > 70 {
				capsets = capsets[:1] // the failure-point loops are quadratic in the number of checkers
			}
			for _, caps := range capsets {
				c13One(res, sh, caps, 0, false)
				res.Add("deep_chain_cases", 1)
			}
		}
	}
	var idx int64
	for n := 1; n <= c13MaxNodes(env.Tier); n++ {
		var all []*shape
		for _, base := range shapesOfSize(n) {
			all = append(all, base)
			if n >= c13MaxNodes(env.Tier) {
				continue // mixed trees one size below the bound
			}
			// every labelling of the first three inner nodes with {library non-terminal, foreign non-terminal, nested list}
			k := countInner(base)
			if k > 3 {
				k = 3
			}
			total := 1
			for i := 0; i < k; i++ {
				total *= 3
			}
			for a := 1; a < total; a++ {
				labels := make([]byte, k)
				for i, x := 0, a; i < k; i, x = i+1, x/3 {
					labels[i] = "NFL"[x%3]
				}
				all = append(all, relabel(base, labels))
			}
		}
		for _, s := range all {
			nt := countNT(s)
			k := nt
			if k > 3 {
				k = 3 // all assignments to the first three non-terminals (pre-order), plain elsewhere
			}
			total := 1
			for i := 0; i < k; i++ {
				total *= nCaps
			}
			for a := 0; a < total; a++ {
				caps := make([]int, nt)
				x := a
				for i := 0; i < nt; i++ {
					if i < k {
						caps[i] = x % nCaps
						x /= nCaps
					} else {
						caps[i] = capPlain
					}
				}
				for listAlts := 0; listAlts <= 2; listAlts++ {
					mine := env.Mine(idx)
					idx++
					if !mine {
						continue
					}
					before := res.ViolationCount
					c13One(res, s, caps, listAlts, false)
					if nt >= 2 || listAlts > 0 {
						res.Add("nontrivial", 1)
					}
					if idx%20011 == 3 {
						res.Sample(c13Case{s.String(), caps, listAlts}.String())
					}
					if res.ViolationCount > before {
						continue
					}
				}
			}
		}
	}
	return res
}

func c13Replay(raw json.RawMessage) *explore.Result {
	res := explore.NewResult()
	var c c13Case
	if err := json.Unmarshal(raw, &c); err != nil {
		res.Notes = append(res.Notes, "bad case: "+err.Error())
		return res
	}
	if c.Shape == "builtins" {
		c13Builtins(res)
		return res
	}
	s, _ := parseShape(c.Shape)
	if s == nil {
		res.Notes = append(res.Notes, "bad shape")
		return res
	}
	res.Notes = append(res.Notes, "case: "+c.String())
	c13One(res, s, c.Caps, c.List, true)
	return res
}

func init() {
	explore.Register(&explore.Check{
		ID:    "C13",
		Level: "model_checking",
		Rule: "chains of 1..70, ~128 and ~256 nested non-terminals; every ordered tree with up to N nodes (arity <= 3; terminal, empty and childless non-terminal leaves; up to N-1 nodes also with every labelling of the first three inner nodes as library non-terminal / user-defined non-terminal type / nested alternative list), alone and under a root alternative list of 1 or 2 alternatives, x every assignment of interpreter capability {nil, plain, checker, transformer, both} to its first three non-terminals x, per pass, every stop point (Walk) or every single injected failure (StaticCheck, Transform, EvaluateNode); " +
			"the recorded call sequences, results, errors and Schema() of every node are compared with a recursive model of the documented passes; plus Select/Array/Object over all small arities; " +
			"state = (shape, capabilities, list mode); transition = one run of one pass with one stop/failure point; non-trivial = at least two non-terminals or a root list",
		Assume: []string{"model of the passes in mc/ix/c13.go written from the doc comments of walk.go, static_check.go, transform.go, nonterminal_node.go, node_list.go (a list delegates to its first alternative and is then visited itself; a list is not transformable)"},
		Run:    c13Run,
		Replay: c13Replay,
		Bounds: func(tier string) map[string]any {
			return map[string]any{"max_nodes": c13MaxNodes(tier), "max_arity": 3}
		},
	})
}
