package ix

import (
	"bytes"
	"encoding/hex"
	"encoding/json"
	"fmt"
	"os"
	"path/filepath"
	"strconv"
	"strings"

	"github.com/opsidian/parsley/parsley"
	"github.com/opsidian/parsley/text"

	"verif/mc/explore"
)

// C11 — global positions map one-to-one onto file, line and column. Every file
// set of 1..3 files whose contents range over all strings up to a length bound
// over {a, LF, CR}, built by NewFileSet(files...) and by successive AddFile, and
// every global position from 0 to last+2, against a direct computation.

var c11Symbols = []string{"a", "\n", "\r"}

// c11Wide adds a two-byte and a three-byte character: columns are BYTE columns (offset - line start + 1), so an
// offset inside or after a multi-byte character must not be counted in characters
var c11Wide = []string{"a", "\n", "\r", "é", "€", "\f", "\t"}

type c11Case struct {
	Files   []string `json:"files"` // Go-quoted contents
	NameSet int      `json:"file_name_set,omitempty"`
}

// file names: plain, and ones a formatting shortcut would trip over (format verbs, separators, empty)
var c11Names = [][]string{{"f0", "f1", "f2"}, {"my%20file", "%d.expr", "100%"}, {"a:b", "", "x y"}}
var c11NameSet = 0

func c11Contents(maxLen int) []string {
	var out []string
	eachString(c11Symbols, maxLen, func(_ int64, s string, _ []int) { out = append(out, s) })
	return out
}

// expected line/column of offset off in normalised content d
func lineColOf(d []byte, off int) (int, int) {
	line, start := 1, 0
	for i := 0; i < off && i < len(d); i++ {
		if d[i] == '\n' {
			line++
			start = i + 1
		}
	}
	return line, off - start + 1
}

func c11Set(res *explore.Result, contents []string, verbose bool) {
	quoted := make([]string, len(contents))
	for i, c := range contents {
		quoted[i] = strconv.Quote(c)
	}
	cs := c11Case{quoted, c11NameSet}
	desc := "files [" + strings.Join(quoted, ", ") + "]"
	norm := make([][]byte, len(contents))
	bases := make([]int, len(contents))
	next := 1
	for i, c := range contents {
		norm[i] = bytes.Replace([]byte(c), []byte("\r\n"), []byte("\n"), -1)
		bases[i] = next
		next += len(norm[i]) + 1
	}
	last := next - 1       // the last file's end-of-file position: the last valid global position
	var diskNames []string // set while the loaded-from-disk variant runs: text.ReadFile names a file by its path
	nameOf := func(i int) string {
		if diskNames != nil {
			return diskNames[i]
		}
		return c11Names[c11NameSet][i%len(c11Names[c11NameSet])]
	}
	show := func(i, l, c int) string {
		if nameOf(i) == "" {
			return fmt.Sprintf("%d:%d", l, c) // documented: a position without a file name renders as line:column
		}
		return fmt.Sprintf("%s:%d:%d", nameOf(i), l, c)
	}
	expected := func(p int) string {
		if p <= 0 || p > last {
			return "unknown"
		}
		for i := len(bases) - 1; i >= 0; i-- {
			if p >= bases[i] {
				off := p - bases[i]
				if off > len(norm[i]) {
					return "unknown" // cannot happen with the documented layout
				}
				l, c := lineColOf(norm[i], off)
				return show(i, l, c)
			}
		}
		return "unknown"
	}
	type variant struct {
		name  string
		build func() (*parsley.FileSet, []*text.File)
		order string
	}
	// a reader is created on every file BEFORE the file joins a set (the order examples/json uses): the positions it
	// hands out afterwards must be the file's
	var readers []*text.Reader
	mk := func() []*text.File {
		fs := make([]*text.File, len(contents))
		readers = make([]*text.Reader, len(contents))
		for i, c := range contents {
			fs[i] = text.NewFile(nameOf(i), []byte(c))
			readers[i] = text.NewReader(fs[i])
		}
		return fs
	}
	variants := []variant{
		{"NewFileSet(files...), ascending queries", func() (*parsley.FileSet, []*text.File) {
			fl := mk()
			pf := make([]parsley.File, len(fl))
			for i, f := range fl {
				pf[i] = f
			}
			return parsley.NewFileSet(pf...), fl
		}, "asc"},
		{"successive AddFile, descending queries", func() (*parsley.FileSet, []*text.File) {
			fl := mk()
			fs := parsley.NewFileSet()
			for _, f := range fl {
				fs.AddFile(f)
			}
			return fs, fl
		}, "desc"},
		{"successive AddFile with lookups of positions beyond the set BEFORE every AddFile, ascending queries", func() (*parsley.FileSet, []*text.File) {
			fl := mk()
			fs := parsley.NewFileSet()
			for i, f := range fl {
				// positions the set does not cover yet (they will belong to this file): asked now, they are unknown;
				// that answer must not stick once the file has been added
				for p := bases[i]; p <= bases[i]+len(norm[i])+1; p++ {
					_ = fs.Position(parsley.Pos(p)).String()
				}
				fs.AddFile(f)
			}
			return fs, fl
		}, "asc"},
	}
	variants = append(variants, variant{"NewFileSet(first) + AddFile(rest), queries alternating between files", func() (*parsley.FileSet, []*text.File) {
		fl := mk()
		fs := parsley.NewFileSet(fl[0])
		for _, f := range fl[1:] {
			fs.AddFile(f)
		}
		return fs, fl
	}, "alt"})
	if len(contents) >= 2 {
		variants = append(variants, variant{"NewFileSet(slice with spare capacity...) + AddFile(last), then the caller appends another file to its own slice", func() (*parsley.FileSet, []*text.File) {
			fl := mk()
			slice := make([]parsley.File, 0, 8)
			for _, f := range fl[:len(fl)-1] {
				slice = append(slice, f)
			}
			fs := parsley.NewFileSet(slice...)
			fs.AddFile(fl[len(fl)-1])
			// what the caller does with its own slice afterwards must not reach into the set
			slice = append(slice, text.NewFile("decoy", []byte("zz\nzz\nzz")))
			_ = parsley.NewFileSet(slice...)
			return fs, fl
		}, "asc"})
	}
	variants = append(variants, variant{"every file first registered in ANOTHER set behind a 3-byte file, then NewFileSet(files...), ascending queries", func() (*parsley.FileSet, []*text.File) {
		fl := mk()
		pf := make([]parsley.File, len(fl))
		for i, f := range fl {
			// an earlier placement of the same file object (it got some other base offset there) must not stick
			old := parsley.NewFileSet(text.NewFile("elsewhere", []byte("xyz")))
			old.AddFile(f)
			pf[i] = f
		}
		return parsley.NewFileSet(pf...), fl
	}, "asc"})
	if c11NameSet == 0 {
		// the other documented way to obtain a file: the same bytes read from disk must give the same positions
		variants = append(variants, variant{"files loaded with text.ReadFile, NewFileSet(files...), ascending queries", func() (*parsley.FileSet, []*text.File) {
			fl := make([]*text.File, len(contents))
			pf := make([]parsley.File, len(contents))
			diskNames = make([]string, len(contents))
			for i, c := range contents {
				diskNames[i] = c11OnDisk(c)
				f, err := text.ReadFile(diskNames[i])
				if err != nil {
					panic("C11 harness: cannot read back " + diskNames[i] + ": " + err.Error())
				}
				fl[i], pf[i] = f, f
			}
			return parsley.NewFileSet(pf...), fl
		}, "asc"})
	}
	for _, v := range variants {
		diskNames = nil
		readers = nil
		fs, files := v.build()
		res.Add("states", 1)
		seenGlobal := map[int]string{}
		var positions []int
		for p := 0; p <= last+2; p++ {
			positions = append(positions, p)
		}
		if v.order == "alt" {
			// visit offset 0 of every file (last file first), then offset 1 of every file, ... then the out-of-range ones
			positions = positions[:0]
			for off := 0; ; off++ {
				any := false
				for i := len(bases) - 1; i >= 0; i-- {
					if off <= len(norm[i]) {
						positions = append(positions, bases[i]+off)
						any = true
					}
				}
				if !any {
					break
				}
			}
			positions = append(positions, 0, last+1, last+2)
		}
		if v.order == "desc" {
			for i, j := 0, len(positions)-1; i < j; i, j = i+1, j-1 {
				positions[i], positions[j] = positions[j], positions[i]
			}
		}
		// the Position values handed out are kept and rendered AGAIN after all queries: a translation that was right
		// when it was returned must still read the same after later lookups in the same file / file set
		type kept struct {
			p    parsley.Position
			was  string
			what string
		}
		var retained []kept
		for _, p := range positions {
			res.Add("transitions", 1)
			var got string
			if pm := guard(func() {
				pp := fs.Position(parsley.Pos(p))
				got = pp.String()
				retained = append(retained, kept{pp, got, fmt.Sprintf("FileSet.Position(%d)", p)})
			}); pm != "" {
				res.Violate("panic:FileSet.Position", fmt.Sprintf("%s (%s): FileSet.Position(%d) panicked: %s", desc, v.name, p, pm), cs)
				return
			}
			if want := expected(p); got != want {
				res.Violate("FileSet.Position", fmt.Sprintf("%s (%s): FileSet.Position(%d) = %s, expected %s", desc, v.name, p, got, want), cs)
				return
			}
		}
		// per file: Pos / Position agree with the layout, the map (file, offset) -> global position is injective
		for i, f := range files {
			for off := 0; off <= len(norm[i]); off++ {
				res.Add("transitions", 1)
				gp := int(f.Pos(off))
				if readers != nil && int(readers[i].Pos(off)) != bases[i]+off {
					res.Violate("Reader.Pos", fmt.Sprintf("%s (%s): a reader created on file %d before the set was built gives Pos(%d) = %d, expected %d", desc, v.name, i, off, int(readers[i].Pos(off)), bases[i]+off), cs)
					return
				}
				if gp != bases[i]+off {
					res.Violate("File.Pos", fmt.Sprintf("%s (%s): file %d Pos(%d) = %d, expected %d", desc, v.name, i, off, gp, bases[i]+off), cs)
					return
				}
				if prev, dup := seenGlobal[gp]; dup {
					res.Violate("not-injective", fmt.Sprintf("%s (%s): global position %d belongs to %s and to f%d+%d", desc, v.name, gp, prev, i, off), cs)
					return
				}
				seenGlobal[gp] = fmt.Sprintf("f%d+%d", i, off)
				l, c := lineColOf(norm[i], off)
				want := show(i, l, c)
				pp := f.Position(off)
				retained = append(retained, kept{pp, pp.String(), fmt.Sprintf("file %d Position(%d)", i, off)})
				if got := pp.String(); got != want {
					res.Violate("File.Position", fmt.Sprintf("%s (%s): file %d Position(%d) = %s, expected %s", desc, v.name, i, off, got, want), cs)
					return
				}
			}
			if got := f.Position(len(norm[i]) + 1).String(); got != "unknown" {
				res.Violate("File.Position", fmt.Sprintf("%s (%s): file %d Position(len+1) = %s, expected unknown", desc, v.name, i, got), cs)
				return
			}
		}
		for _, k := range retained {
			res.Add("transitions", 1)
			if now := k.p.String(); now != k.was {
				res.Violate("position-value-rewritten-later", fmt.Sprintf("%s (%s): the value returned by %s read %s and reads %s after the later lookups", desc, v.name, k.what, k.was, now), cs)
				return
			}
		}
		if verbose {
			res.Notes = append(res.Notes, fmt.Sprintf("%s (%s): %d global positions and every (file, offset) agree with the direct computation", desc, v.name, len(positions)))
		}
	}
	res.Add("traces", 1)
}

// c11OnDisk writes content to a scratch file once per process and returns its path.
var c11Dir string
var c11Disk = map[string]string{}

func c11OnDisk(content string) string {
	if p, ok := c11Disk[content]; ok {
		return p
	}
	if c11Dir == "" {
		d, err := os.MkdirTemp("", "verif-c11-")
		if err != nil {
			panic("C11 harness: " + err.Error())
		}
		c11Dir = d
	}
	p := filepath.Join(c11Dir, "c"+hex.EncodeToString([]byte(content)))
	if err := os.WriteFile(p, []byte(content), 0o600); err != nil {
		panic("C11 harness: " + err.Error())
	}
	c11Disk[content] = p
	return p
}

func c11Cleanup() {
	if c11Dir != "" {
		os.RemoveAll(c11Dir)
		c11Dir, c11Disk = "", map[string]string{}
	}
}

type c11Bound struct {
	files, maxLen int
	wide          bool // contents over c11Wide instead of c11Symbols
}

func c11Bounds(tier string) []c11Bound {
	if tier == "thorough" {
		return []c11Bound{{1, 9, false}, {2, 6, false}, {3, 4, false}, {4, 2, false}, {5, 1, false}, {6, 1, false}, {7, 1, false}, {1, 7, true}, {2, 3, true}}
	}
	return []c11Bound{{1, 7, false}, {2, 5, false}, {3, 3, false}, {4, 1, false}, {5, 1, false}, {6, 1, false}, {1, 5, true}, {2, 2, true}}
}

func c11Run(env *explore.Env) *explore.Result {
	res := explore.NewResult()
	defer c11Cleanup()
	var idx int64
	for _, b := range c11Bounds(env.Tier) {
		contents := c11Contents(b.maxLen)
		if b.wide {
			contents = contents[:0]
			eachString(c11Wide, b.maxLen, func(_ int64, s string, _ []int) { contents = append(contents, s) })
		}
		cur := make([]string, b.files)
		var rec func(k int)
		rec = func(k int) {
			if k == b.files {
				mine := env.Mine(idx)
				idx++
				if !mine {
					return
				}
				c11Set(res, append([]string{}, cur...), false)
				if idx%7 == 0 {
					// every 7th file set also with the other file-name sets
					for ns := 1; ns < len(c11Names); ns++ {
						c11NameSet = ns
						c11Set(res, append([]string{}, cur...), false)
					}
					c11NameSet = 0
				}
				nontrivial := b.files > 1
				for _, c := range cur {
					if strings.ContainsAny(c, "\r\n") {
						nontrivial = true
					}
				}
				if nontrivial {
					res.Add("nontrivial", 1)
				}
				if idx%40000 == 1 {
					res.Sample(fmt.Sprintf("file set %q: every global position 0..last+2, both construction orders", cur))
				}
				return
			}
			for _, c := range contents {
				cur[k] = c
				rec(k + 1)
			}
		}
		rec(0)
	}
	return res
}

func c11Replay(raw json.RawMessage) *explore.Result {
	res := explore.NewResult()
	defer c11Cleanup()
	var c c11Case
	if err := json.Unmarshal(raw, &c); err != nil {
		res.Notes = append(res.Notes, "bad case: "+err.Error())
		return res
	}
	var contents []string
	for _, qd := range c.Files {
		s, err := strconv.Unquote(qd)
		if err != nil {
			res.Notes = append(res.Notes, "bad case content")
			return res
		}
		contents = append(contents, s)
	}
	if c.NameSet >= 0 && c.NameSet < len(c11Names) {
		c11NameSet = c.NameSet
	}
	c11Set(res, contents, true)
	return res
}

func init() {
	explore.Register(&explore.Check{
		ID:    "C11",
		Level: "model_checking",
		Rule: "every file set of k files whose contents are ALL strings up to a length bound over {a, LF, CR} (CR, LF, CRLF mixes, empty files, missing trailing newline all occur), built by NewFileSet(files...) and by successive AddFile, queried at every global position 0..last+2 in ascending and descending order (lazy line tables), plus File.Pos/File.Position at every offset and injectivity of (file, offset) -> position; " +
			"state = one file set in one construction/query order; transition = one position query; non-trivial = a set with several files or with line breaks",
		Assume: []string{"direct line/column computation in mc/ix/c11.go over the CRLF-normalised content; documented layout: first base 1, one unused position between files"},
		Run:    c11Run,
		Replay: c11Replay,
		Bounds: func(tier string) map[string]any {
			m := map[string]any{}
			for _, b := range c11Bounds(tier) {
				if b.wide {
					m[fmt.Sprintf("%d_file_sets_with_multibyte_characters_max_symbols", b.files)] = b.maxLen
					continue
				}
				m[fmt.Sprintf("%d_file_sets_max_content_len", b.files)] = b.maxLen
			}
			return m
		},
	})
}
