package ix

import (
	"bytes"
	"encoding/json"
	"fmt"
	"os"
	"strconv"
	"unicode/utf8"

	"github.com/opsidian/parsley/parsley"
	"github.com/opsidian/parsley/text"

	"verif/mc/explore"
)

// C09 — text reader primitives match a byte-level specification and stay in
// bounds. All contents up to a length bound over an alphabet with one symbol per
// branch of reader.go x all file placements x every position x every primitive
// with a small menu of in-domain arguments, against direct byte-level functions.

var c09Symbols = []string{"a", "_", " ", "\t", "\n", "\f", "\r", "é", "\xff", "1"}

type c09Case struct {
	Content   string `json:"content"` // Go-quoted
	Placement int    `json:"placement"`
}

func isWordByte(b byte) bool {
	return b == '_' || (b >= '0' && b <= '9') || (b >= 'a' && b <= 'z') || (b >= 'A' && b <= 'Z')
}

func isWs(b byte) bool { return b == ' ' || b == '\t' || b == '\n' || b == '\f' }

// hand-written matchers for the three regular expressions of the menu
func reAPlus(d []byte) int { // a+
	k := 0
	for k < len(d) && d[k] == 'a' {
		k++
	}
	return k
}

func reAOptUnderscore(d []byte) (int, [][]byte) { // (a)(_)?
	if len(d) == 0 || d[0] != 'a' {
		return 0, nil
	}
	if len(d) > 1 && d[1] == '_' {
		return 2, [][]byte{d[:2], d[:1], d[1:2]}
	}
	return 1, [][]byte{d[:1], d[:1], nil}
}

func reNotA(d []byte) int { // [^a]: one rune (an invalid byte counts as one) that is not 'a'
	if len(d) == 0 || d[0] == 'a' {
		return 0
	}
	_, w := utf8.DecodeRune(d)
	return w
}

var readfFuncs = []struct {
	name string
	f    func(b []byte) ([]byte, int)
}{
	{"take-while-a", func(b []byte) ([]byte, int) {
		k := reAPlus(b)
		if k == 0 {
			return nil, 0
		}
		return b[:k], k
	}},
	{"consume-two-return-one", func(b []byte) ([]byte, int) {
		if len(b) < 2 {
			return nil, 0
		}
		return b[:1], 2
	}},
	{"refuse", func(b []byte) ([]byte, int) { return nil, 0 }},
	{"consume-two-return-no-value", func(b []byte) ([]byte, int) { // a skipper: it consumes input and has nothing to hand back
		if len(b) < 2 {
			return nil, 0
		}
		return nil, 2
	}},
}

func c09Content(res *explore.Result, content string, pi int, verbose bool) {
	pl := placementFromDisk
	if pi >= 0 {
		pl = placements[pi]
	}
	raw := []byte(content)
	d := bytes.Replace(raw, []byte("\r\n"), []byte("\n"), -1) // the documented CRLF normalisation
	_, f, r, base := place(pl, "f", raw)
	n := len(d)
	cs := c09Case{strconv.Quote(content), pi}
	bad := func(prim string, cur int, arg, got, want string) {
		res.Violate(prim, fmt.Sprintf("content %s %s (base %d), position %d: %s(%s) = %s, byte-level spec: %s", q(content), pl.name, base, cur, prim, arg, got, want), cs)
	}
	if f.Len() != n {
		bad("File.Len", 0, "", fmt.Sprint(f.Len()), fmt.Sprint(n))
		return
	}
	// byte slices the reader handed out are kept until every position has been visited and then read again: a value
	// that was right when it was returned must not be rewritten by a later call
	type kept struct {
		b    []byte
		was  string
		what string
	}
	var retained []kept
	keep := func(b []byte, what string) []byte {
		if len(b) > 0 {
			retained = append(retained, kept{b, string(b), what})
		}
		return b
	}
	defer func() {
		for _, k := range retained {
			res.Add("transitions", 1)
			if string(k.b) != k.was {
				res.Violate("returned-bytes-rewritten-later", fmt.Sprintf("content %s %s: the bytes %q returned by %s read %q after the later calls on the same reader", q(content), pl.name, k.was, k.what, k.b), cs)
				return
			}
		}
	}()
	for cur := 0; cur <= n; cur++ {
		pos := parsley.Pos(base + cur)
		rest := d[cur:]
		res.Add("states", 1)
		check := func(prim, arg string, run func() string, want string) {
			res.Add("transitions", 1)
			var got string
			if p := guard(func() { got = run() }); p != "" {
				res.Violate("panic:"+prim, fmt.Sprintf("content %s %s, position %d: %s(%s) panicked: %s", q(content), pl.name, cur, prim, arg, p), cs)
				return
			}
			if got != want {
				bad(prim, cur, arg, got, want)
			} else if verbose {
				res.Notes = append(res.Notes, fmt.Sprintf("pos %d %s(%s) = %s", cur, prim, arg, got))
			}
		}
		pr := func(p parsley.Pos, ok bool) string { return fmt.Sprintf("(+%d,%v)", int(p)-base, ok) }
		pb := func(p parsley.Pos, b []byte) string {
			if b == nil {
				return fmt.Sprintf("(+%d,nil)", int(p)-base)
			}
			return fmt.Sprintf("(+%d,%q)", int(p)-base, b)
		}
		runeArgs := []rune{'a', '_', 'é', '€', '\n', '1'}
		if cur < n {
			// arguments forced to collide with the byte under the cursor in their low, second or widened byte:
			// a rune that only shares some of its bits with the data must not match it
			b := rune(rest[0])
			for _, c := range []rune{b, 0x100 | b, 0x1F300 | b, b << 8, 0x80 | b, b &^ 0x80} {
				if c != 0 && utf8.ValidRune(c) {
					runeArgs = append(runeArgs, c)
				}
			}
		}
		for _, ch := range runeArgs {
			enc := []byte(string(ch))
			want := pr(pos, false)
			if bytes.HasPrefix(rest, enc) {
				want = pr(parsley.Pos(base+cur+len(enc)), true)
			}
			ch := ch
			check("ReadRune", strconv.QuoteRune(ch), func() string { return pr(r.ReadRune(pos, ch)) }, want)
		}
		for _, s := range []string{"a", "a_", "é", " ", "\n"} {
			want := pr(pos, false)
			if bytes.HasPrefix(rest, []byte(s)) {
				want = pr(parsley.Pos(base+cur+len(s)), true)
			}
			s := s
			check("MatchString", q(s), func() string { return pr(r.MatchString(pos, s)) }, want)
		}
		for _, w := range []string{"a", "a_", "aa", "a1"} {
			want := pr(pos, false)
			if bytes.HasPrefix(rest, []byte(w)) && (len(rest) == len(w) || !isWordByte(rest[len(w)])) {
				want = pr(parsley.Pos(base+cur+len(w)), true)
			}
			w := w
			check("MatchWord", q(w), func() string { return pr(r.MatchWord(pos, w)) }, want)
		}
		{
			k := reAPlus(rest)
			want := pb(pos, nil)
			if k > 0 {
				want = pb(parsley.Pos(base+cur+k), rest[:k])
			}
			check("ReadRegexp", "`a+`", func() string {
				p, b := r.ReadRegexp(pos, "a+")
				return pb(p, keep(b, fmt.Sprintf("ReadRegexp(+%d, `a+`)", cur)))
			}, want)
			k = reNotA(rest)
			want = pb(pos, nil)
			if k > 0 {
				want = pb(parsley.Pos(base+cur+k), rest[:k])
			}
			check("ReadRegexp", "`[^a]`", func() string {
				p, b := r.ReadRegexp(pos, "[^a]")
				return pb(p, keep(b, fmt.Sprintf("ReadRegexp(+%d, `[^a]`)", cur)))
			}, want)
			// the same two expressions again in the order A, A, B, A, A on this reader: what the reader remembers about
			// the expression it saw last must not answer for another one
			{
				kA, kB := reAPlus(rest), reNotA(rest)
				wantA, wantB := pb(pos, nil), pb(pos, nil)
				if kA > 0 {
					wantA = pb(parsley.Pos(base+cur+kA), rest[:kA])
				}
				if kB > 0 {
					wantB = pb(parsley.Pos(base+cur+kB), rest[:kB])
				}
				for step, e := range []string{"a+", "a+", "[^a]", "a+", "a+"} {
					e, w := e, wantA
					if e == "[^a]" {
						w = wantB
					}
					check("ReadRegexp", fmt.Sprintf("`%s` (call %d of the order A, A, B, A, A)", e, step+1), func() string { return pb(r.ReadRegexp(pos, e)) }, w)
				}
			}
			// a top-level alternation must be anchored at the cursor as a whole
			k = 0
			if bytes.HasPrefix(rest, []byte("a_")) || bytes.HasPrefix(rest, []byte("_a")) {
				k = 2
			}
			want = pb(pos, nil)
			if k > 0 {
				want = pb(parsley.Pos(base+cur+k), rest[:k])
			}
			check("ReadRegexp", "`a_|_a`", func() string { return pb(r.ReadRegexp(pos, "a_|_a")) }, want)
			// an expression that brings its own ^ is anchored at the cursor as a whole all the same
			check("ReadRegexp", "`^a_|_a`", func() string { return pb(r.ReadRegexp(pos, "^a_|_a")) }, want)
			k, sub := reAOptUnderscore(rest)
			ps := func(p parsley.Pos, m [][]byte) string {
				if m == nil {
					return fmt.Sprintf("(+%d,nil)", int(p)-base)
				}
				s := fmt.Sprintf("(+%d", int(p)-base)
				for _, x := range m {
					if x == nil {
						s += ",nil"
					} else {
						s += fmt.Sprintf(",%q", x)
					}
				}
				return s + ")"
			}
			want = ps(pos, nil)
			if k > 0 {
				want = ps(parsley.Pos(base+cur+k), sub)
			}
			check("ReadRegexpSubmatch", "`(a)(_)?`", func() string {
				p, m := r.ReadRegexpSubmatch(pos, "(a)(_)?")
				for _, g := range m {
					keep(g, fmt.Sprintf("ReadRegexpSubmatch(+%d, `(a)(_)?`)", cur))
				}
				return ps(p, m)
			}, want)
		}
		for _, rf := range readfFuncs {
			want := pb(pos, nil)
			if cur < n {
				if v, k := rf.f(rest); k > 0 {
					want = pb(parsley.Pos(base+cur+k), v)
				}
			}
			rf := rf
			check("Readf", rf.name, func() string {
				p, b := r.Readf(pos, rf.f)
				return pb(p, keep(b, fmt.Sprintf("Readf(+%d, %s)", cur, rf.name)))
			}, want)
		}
		// whitespace skipping
		e := cur
		nl := -1
		for e < n && isWs(d[e]) {
			if nl < 0 && (d[e] == '\n' || d[e] == '\f') {
				nl = e
			}
			e++
		}
		for _, mode := range []text.WsMode{text.WsNone, text.WsSpaces, text.WsSpacesNl, text.WsSpacesForceNl} {
			want := fmt.Sprintf("(+%d,ok)", e)
			switch {
			case mode == text.WsNone && e > cur:
				want = fmt.Sprintf("(+%d,%q@+%d)", e, "whitespaces are not allowed", cur)
			case mode == text.WsSpaces && nl >= 0:
				want = fmt.Sprintf("(+%d,%q@+%d)", e, "new line is not allowed", nl)
			case mode == text.WsSpacesForceNl && nl < 0:
				want = fmt.Sprintf("(+%d,%q@+%d)", e, "was expecting a new line", e)
			}
			mode := mode
			check("SkipWhitespaces", fmt.Sprintf("mode %d", mode), func() string {
				p, err := r.SkipWhitespaces(pos, mode)
				if err == nil {
					return fmt.Sprintf("(+%d,ok)", int(p)-base)
				}
				return fmt.Sprintf("(+%d,%q@+%d)", int(p)-base, err.Error(), int(err.Pos())-base)
			}, want)
		}
		check("Remaining", "", func() string { return fmt.Sprint(r.Remaining(pos)) }, fmt.Sprint(n-cur))
		check("IsEOF", "", func() string { return fmt.Sprint(r.IsEOF(pos)) }, fmt.Sprint(cur >= n))
		check("Pos", fmt.Sprint(cur), func() string { return fmt.Sprint(int(r.Pos(cur))) }, fmt.Sprint(base+cur))
	}
}

func c09MaxLen(tier string) int {
	if tier == "thorough" {
		return 6
	}
	return 5
}

func c09Run(env *explore.Env) *explore.Result {
	res := explore.NewResult()
	// short contents also as a file loaded with text.ReadFile that is never added to a set
	eachString(c09Symbols, 3, func(idx int64, s string, _ []int) {
		if env.Mine(idx) {
			c09Content(res, s, -1, false)
			res.Add("traces", 1)
		}
	})
	defer func() {
		if diskScratch != "" {
			os.Remove(diskScratch)
			diskScratch = ""
		}
	}()
	// every byte value directly after / before a word and a match: the edges of every character class the
	// primitives use (word characters, whitespace, ASCII / multi-byte) are byte values, so all 256 are tried
	for v := 0; v < 256; v++ {
		if !env.Mine(int64(v)) {
			continue
		}
		for _, content := range []string{"a" + string([]byte{byte(v)}), "a_" + string([]byte{byte(v)}), string([]byte{byte(v)}) + "a", "a1" + string([]byte{byte(v)}) + "a"} {
			c09Content(res, content, 0, false)
			res.Add("traces", 1)
			res.Add("byte_sweep_contents", 1)
		}
	}
	eachString(c09Symbols, c09MaxLen(env.Tier), func(idx int64, s string, syms []int) {
		if !env.Mine(idx) {
			return
		}
		nontrivial := false
		for _, i := range syms {
			if i >= 2 { // whitespace, CR, multi-byte or invalid byte present
				nontrivial = true
			}
		}
		for pi := range placements {
			before := res.ViolationCount
			c09Content(res, s, pi, false)
			res.Add("traces", 1)
			if nontrivial && pi > 0 {
				res.Add("nontrivial", 1)
			}
			if res.ViolationCount > before {
				break
			}
		}
		if idx%3001 == 0 {
			res.Sample(fmt.Sprintf("content %s at all %d placements, every position, every primitive", q(s), len(placements)))
		}
	})
	return res
}

func c09Replay(raw json.RawMessage) *explore.Result {
	res := explore.NewResult()
	var c c09Case
	if err := json.Unmarshal(raw, &c); err != nil {
		res.Notes = append(res.Notes, "bad case: "+err.Error())
		return res
	}
	s, err := strconv.Unquote(c.Content)
	if err != nil || c.Placement < -1 || c.Placement >= len(placements) {
		res.Notes = append(res.Notes, "bad case content")
		return res
	}
	c09Content(res, s, c.Placement, false)
	return res
}

func init() {
	explore.Register(&explore.Check{
		ID:    "C09",
		Level: "model_checking",
		Rule: "every file content of 0..N symbols over {a _ space tab LF FF CR é(2 bytes) 0xFF 1} (CRLF pairs arise by concatenation) x 6 placements in a file set (base offsets 1,2,5,3,10,1000) x every position 0..len x every primitive with its argument menu, compared with direct byte-level functions; " +
			"state = (content, placement, position); transition = one primitive call; non-trivial = content containing whitespace/CR/multi-byte/invalid bytes at a non-default base offset",
		Assume: []string{"byte-level reference functions in mc/ix/c09.go; unicode/utf8.DecodeRune for rune width; arguments restricted to each primitive's documented domain (non-empty ASCII words, non-empty-matching regexps)"},
		Run:    c09Run,
		Replay: c09Replay,
		Bounds: func(tier string) map[string]any {
			return map[string]any{"max_symbols": c09MaxLen(tier), "symbols": c09Symbols, "placements": len(placements)}
		},
	})
}
