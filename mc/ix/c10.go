package ix

import (
	"bytes"
	"encoding/json"
	"fmt"
	"strconv"
	"strings"

	"github.com/opsidian/parsley/ast"
	"github.com/opsidian/parsley/combinator"
	"github.com/opsidian/parsley/parser"
	"github.com/opsidian/parsley/parsley"
	"github.com/opsidian/parsley/text"
	"github.com/opsidian/parsley/text/terminal"

	"verif/mc/explore"
)

// C10 — whitespace modes are enforced exactly and permitted whitespace is
// transparent. Token sequences t1..tk under Sentence(SeqOf(W1(t1)..Wk(tk))),
// every wrapper Wi in {none, LeftTrim(L), RightTrim(R), RightTrim(LeftTrim(.,L),R)}
// for all modes, every whitespace string up to a length bound over {space, tab,
// LF, FF} independently in every gap, CRLF variants; against a left-to-right
// specification written from the statement.

type wrapper struct {
	hasL, hasR bool
	l, r       text.WsMode
	// kind of the wrapped token: 0 a single rune; 1 an OPTIONAL rune, Choice(Rune(c), parser.Empty()) — when absent the
	// token is an empty match, a bare position; 2 a two-rune PHRASE, SeqOf(Rune(c), Rune('x')) — a non-terminal whose
	// failure can lie behind its start
	kind int
}

var kindNames = []string{"", "?", "x", "", "??", "|x"}

// tokRune is the first rune of token i: kind 3 is a LINE BREAK token (a grammar that consumes line breaks itself,
// as line-oriented languages do), every other kind starts with the i-th letter
func tokRune(i, kind int) rune {
	if kind == 3 {
		return '\n'
	}
	return tokenRunes[i]
}

// tokenParser builds token i of the given kind.
func tokenParser(i, kind int) parsley.Parser {
	switch kind {
	case 1:
		return combinator.Choice(terminal.Rune(tokenRunes[i]), parser.Empty())
	case 2:
		return combinator.SeqOf(terminal.Rune(tokenRunes[i]), terminal.Rune('x')).Bind(concatInterp)
	case 3:
		return terminal.Rune('\n')
	case 5:
		// a token with two readings that end at different places: Any(Rune(c), SeqOf(Rune(c), Rune('x'))); a right trim
		// has to judge and skip the run behind EACH alternative
		return combinator.Any(terminal.Rune(tokenRunes[i]), combinator.SeqOf(terminal.Rune(tokenRunes[i]), terminal.Rune('x')).Bind(concatInterp))
	case 4:
		// combinator.Optional: when absent it hands back the empty match TOGETHER with its operand's error; used
		// without trims only (what a trim does around a result that comes with an error is outside the statement)
		return combinator.Optional(terminal.Rune(tokenRunes[i]))
	}
	return terminal.Rune(tokenRunes[i])
}

func (w wrapper) String() string { return w.around("t") }

var modeNames = map[text.WsMode]string{text.WsNone: "WsNone", text.WsSpaces: "WsSpaces", text.WsSpacesNl: "WsSpacesNl", text.WsSpacesForceNl: "WsSpacesForceNl"}

func (w wrapper) around(t string) string {
	t += kindNames[w.kind]
	switch {
	case w.hasL && w.hasR:
		return fmt.Sprintf("RightTrim(LeftTrim(%s,%s),%s)", t, modeNames[w.l], modeNames[w.r])
	case w.hasL:
		return fmt.Sprintf("LeftTrim(%s,%s)", t, modeNames[w.l])
	case w.hasR:
		return fmt.Sprintf("RightTrim(%s,%s)", t, modeNames[w.r])
	}
	return t
}

var allModes = []text.WsMode{text.WsNone, text.WsSpaces, text.WsSpacesNl, text.WsSpacesForceNl}

func allWrappers() []wrapper {
	ws := []wrapper{{}}
	for _, m := range allModes {
		ws = append(ws, wrapper{hasL: true, l: m})
	}
	for _, m := range allModes {
		ws = append(ws, wrapper{hasR: true, r: m})
	}
	for _, l := range allModes {
		for _, r := range allModes {
			ws = append(ws, wrapper{hasL: true, hasR: true, l: l, r: r})
		}
	}
	return ws
}

var reducedWrappers = []wrapper{{}, {hasL: true, l: text.WsSpaces}, {hasL: true, l: text.WsSpacesForceNl}, {hasR: true, r: text.WsSpacesNl}, {hasR: true, r: text.WsNone},
	{hasL: true, hasR: true, l: text.WsSpacesNl, r: text.WsSpacesNl}, {hasL: true, hasR: true, l: text.WsSpaces, r: text.WsSpaces}}

var tokenRunes = []rune{'a', 'b', 'c'}

// c10Named: the token sequence carries a Name (Sequence.Name): a not-found error at its start is then reported as
// "was expecting <name>", a whitespace error must still be the mode's own
var c10Named = false

func buildSeq(ws []wrapper) parsley.Parser {
	ps := make([]parsley.Parser, len(ws))
	for i, w := range ws {
		p := tokenParser(i, w.kind)
		if w.hasL && w.hasR && w.l == text.WsSpacesNl && w.r == text.WsSpacesNl {
			p = text.Trim(p) // the helper IS this combination
		} else {
			if w.hasL {
				p = text.LeftTrim(p, w.l)
			}
			if w.hasR {
				p = text.RightTrim(p, w.r)
			}
		}
		ps[i] = p
	}
	if c10Named {
		return combinator.Sentence(combinator.SeqOf(ps...).Name("token sequence").Bind(concatInterp))
	}
	return combinator.Sentence(combinator.SeqOf(ps...).Bind(concatInterp))
}

// buildSeqAlt is buildSeq for two tokens with a lenient look-ahead alternative in front: the first element is
// Any(SeqOf(t1, LeftTrim(t2, WsSpacesNl), LeftTrim(t3, WsSpacesNl)), W1(t1)). On inputs without t3 the first
// alternative crosses the gap leniently and fails LATER (leaving a further error in the context); the only parse
// is through W1(t1) W2(t2), so the specification is the one of the plain sequence and a whitespace error of W2
// must still be the one reported.
func buildSeqAlt(ws []wrapper) parsley.Parser {
	wrap := func(i int) parsley.Parser {
		p := tokenParser(i, ws[i].kind)
		if ws[i].hasL && ws[i].hasR && ws[i].l == text.WsSpacesNl && ws[i].r == text.WsSpacesNl {
			return text.Trim(p)
		}
		if ws[i].hasL {
			p = text.LeftTrim(p, ws[i].l)
		}
		if ws[i].hasR {
			p = text.RightTrim(p, ws[i].r)
		}
		return p
	}
	lenient := combinator.SeqOf(terminal.Rune(tokenRunes[0]), text.LeftTrim(terminal.Rune(tokenRunes[1]), text.WsSpacesNl), text.LeftTrim(terminal.Rune(tokenRunes[2]), text.WsSpacesNl))
	ps := []parsley.Parser{combinator.Any(lenient, wrap(0))}
	for i := 1; i < len(ws); i++ {
		ps = append(ps, wrap(i))
	}
	return combinator.Sentence(combinator.SeqOf(ps...))
}

var wsMsg = map[text.WsMode]string{text.WsNone: "whitespaces are not allowed", text.WsSpaces: "new line is not allowed", text.WsSpacesForceNl: "was expecting a new line"}

// runAt returns the end of the maximal whitespace run at pos and the first line break in it (-1).
func runAt(d []byte, pos int) (end, nl int) {
	end, nl = pos, -1
	for end < len(d) && isWs(d[end]) {
		if nl < 0 && (d[end] == '\n' || d[end] == '\f') {
			nl = end
		}
		end++
	}
	return
}

// modeVerdict: does the run [pos,end) with first line break nl satisfy mode? if not, where is the error.
func modeVerdict(m text.WsMode, pos, end, nl int) (ok bool, errAt int) {
	switch m {
	case text.WsNone:
		return end == pos, pos
	case text.WsSpaces:
		return nl < 0, nl
	case text.WsSpacesForceNl:
		return nl >= 0, end
	}
	return true, 0
}

type c10Expect struct {
	failTok  int // index of the token whose trim rejects the run (when errText != "")
	ok       bool
	errText  string // exact expected error text ("" = any error: un-owned whitespace makes the next token / end of input fail)
	tokStart []int
	tokEnd   []int
	absent   []bool // optional token not there: the node is an empty match
	long     []int  // tokens of kind 5 read in their long form (a non-terminal of two runes)
}

// c10Spec is the left-to-right specification: each trim sees the maximal run at its position.
func c10Spec(ws []wrapper, d []byte) c10Expect {
	pos := 0
	e := c10Expect{}
	cur := 0
	// once a combinator.Optional token was PRESENT there are two readings (it returns the token and the empty match as
	// alternatives): the parse still succeeds exactly when the consuming reading does, but which of the failures of the
	// two readings is reported is the sequence's policy, not a statement about whitespace modes
	ambiguous := false
	wsFail := func(m text.WsMode, at int) c10Expect {
		if ambiguous {
			return c10Expect{failTok: cur}
		}
		l, c := lineColOf(d, at)
		return c10Expect{failTok: cur, errText: fmt.Sprintf("failed to parse the input: %s at f:%d:%d", wsMsg[m], l, c)}
	}
	for i, w := range ws {
		cur = i
		if w.hasL {
			end, nl := runAt(d, pos)
			if ok, at := modeVerdict(w.l, pos, end, nl); !ok {
				if w.kind != 1 && w.kind != 4 && (end >= len(d) || d[end] != byte(tokRune(i, w.kind))) {
					// the run is not next to the token at all (something else follows it): the statement speaks of runs
					// next to a token; which error is reported here is not specified
					return c10Expect{}
				}
				return wsFail(w.l, at)
			}
			pos = end
		}
		present := pos < len(d) && d[pos] == byte(tokRune(i, w.kind))
		switch {
		case (w.kind == 1 || w.kind == 4) && !present:
			// an absent optional token: an empty match at this position
			e.tokStart = append(e.tokStart, pos)
			e.absent = append(e.absent, true)
		case !present || (w.kind == 2 && (pos+1 >= len(d) || d[pos+1] != 'x')):
			return c10Expect{} // whitespace no trim owns (or a missing / incomplete token): some error
		default:
			if w.kind == 4 {
				ambiguous = true
			}
			e.tokStart = append(e.tokStart, pos)
			e.absent = append(e.absent, false)
			pos++
			if w.kind == 2 {
				pos++
			}
			if w.kind == 5 && pos < len(d) && d[pos] == 'x' {
				// both readings exist; only the long one can be continued (nothing else consumes the x): the parse
				// succeeds exactly when the long reading does, which failure is reported is the sequence's policy
				pos++
				ambiguous = true
				e.long = append(e.long, i)
			}
		}
		tokEnd := pos
		if w.hasR {
			end, nl := runAt(d, pos)
			if ok, at := modeVerdict(w.r, pos, end, nl); !ok {
				return wsFail(w.r, at)
			}
			pos = end
			tokEnd = end
		}
		e.tokEnd = append(e.tokEnd, tokEnd)
	}
	if pos != len(d) {
		return c10Expect{}
	}
	e.ok = true
	return e
}

type c10Case struct {
	// History: inputs parsed before with the SAME parser object (one is built per wrapper assignment)
	History  []string  `json:"inputs_parsed_before_with_this_parser,omitempty"`
	Alt      bool      `json:"lenient_lookahead_alternative,omitempty"`
	Named    bool      `json:"sequence_has_a_name,omitempty"`
	Wrappers []wrapper `json:"-"`
	W        []string  `json:"wrappers"`
	Codes    [][5]int  `json:"codes"` // hasL,l,hasR,r
	Input    string    `json:"input"`
}

func mkCase(ws []wrapper, input string, alt bool) c10Case {
	c := c10Case{Input: strconv.Quote(input), Alt: alt, Named: c10Named}
	for _, w := range ws {
		c.W = append(c.W, w.String())
		b := func(x bool) int {
			if x {
				return 1
			}
			return 0
		}
		c.Codes = append(c.Codes, [5]int{b(w.hasL), int(w.l), b(w.hasR), int(w.r), w.kind})
	}
	return c
}

// c10History: the inputs the current parser object has parsed so far (reset whenever a new parser is built)
var c10History []string

func c10One(res *explore.Result, ws []wrapper, p parsley.Parser, input string, alt bool, verbose bool) {
	raw := []byte(input)
	d := bytes.Replace(raw, []byte("\r\n"), []byte("\n"), -1)
	exp := c10Spec(ws, d)
	if alt && !exp.ok && exp.failTok == 0 {
		// the first token sits inside Any next to the lenient alternative: when BOTH alternatives fail, which of the
		// two errors is reported is Any's policy (the furthest one), not a statement about whitespace modes
		exp.errText = ""
	}
	fs, _, r, base := place(placements[0], "f", raw)
	ctx := parsley.NewContext(fs, r)
	var node parsley.Node
	var err error
	res.Add("transitions", 1)
	names := make([]string, len(ws))
	for i, w := range ws {
		names[i] = w.around(strconv.QuoteRune(tokRune(i, w.kind)))
	}
	where := fmt.Sprintf("Sentence(SeqOf(%s)) on %s", strings.Join(names, ", "), q(input))
	if c10Named {
		where = fmt.Sprintf("Sentence(SeqOf(%s).Name(...)) on %s", strings.Join(names, ", "), q(input))
	}
	if alt {
		where = fmt.Sprintf("Sentence(SeqOf(Any(SeqOf('a', LeftTrim('b',WsSpacesNl), LeftTrim('c',WsSpacesNl)), %s), %s)) on %s", names[0], strings.Join(names[1:], ", "), q(input))
	}
	cs := mkCase(ws, input, alt)
	cs.History = append([]string{}, c10History...)
	c10History = append(c10History, strconv.Quote(input))
	if len(c10History) > 40 {
		c10History = c10History[len(c10History)-40:]
	}
	if pm := guard(func() { node, err = parsley.Parse(ctx, p) }); pm != "" {
		res.Violate("panic", where+": "+pm, cs)
		return
	}
	if verbose {
		res.Notes = append(res.Notes, fmt.Sprintf("%s: spec %+v; library node=%v err=%v", where, exp, node, err))
	}
	switch {
	case exp.ok && err != nil:
		res.Violate("rejects-permitted-whitespace", fmt.Sprintf("%s: every run satisfies its mode, but the parse fails: %v", where, err), cs)
	case !exp.ok && err == nil:
		res.Violate("accepts-forbidden-whitespace", fmt.Sprintf("%s: the specification rejects this input (%s) but the parse succeeds", where, orAny(exp.errText)), cs)
	case !exp.ok && exp.errText != "" && err.Error() != exp.errText:
		res.Violate("wrong-whitespace-error", fmt.Sprintf("%s: error %q, expected %q", where, err.Error(), exp.errText), cs)
	case exp.ok:
		res.Add("accepted", 1)
		// token starts / values / ends
		nt, isNT := node.(parsley.NonTerminalNode)
		if !isNT || len(nt.Children()) < 1 {
			res.Violate("wrong-tree", where+": unexpected root", cs)
			return
		}
		inner, ok := nt.Children()[0].(parsley.NonTerminalNode)
		if !ok || len(inner.Children()) != len(ws) {
			res.Violate("wrong-tree", where+": unexpected sequence node", cs)
			return
		}
		for i, c := range inner.Children() {
			if exp.absent[i] {
				// an empty match is a bare position: it reads as the end of the run a right trim skipped
				if _, isEmpty := c.(ast.EmptyNode); !isEmpty || int(c.ReaderPos())-base != exp.tokEnd[i] {
					res.Violate("wrong-token-span", fmt.Sprintf("%s: token %d is absent; node %v<%d,%d>, expected an empty match ending at %d", where, i, c.Token(), int(c.Pos())-base, int(c.ReaderPos())-base, exp.tokEnd[i]), cs)
					return
				}
				continue
			}
			isLong := false
			for _, li := range exp.long {
				isLong = isLong || li == i
			}
			if ws[i].kind == 2 || isLong {
				nt, isNT := c.(parsley.NonTerminalNode)
				if !isNT || int(c.Pos())-base != exp.tokStart[i] || int(c.ReaderPos())-base != exp.tokEnd[i] {
					res.Violate("wrong-token-span", fmt.Sprintf("%s: phrase %d is %v<%d,%d>, expected <%d,%d> (own start, end moved only by a right trim)", where, i, c.Token(), int(c.Pos())-base, int(c.ReaderPos())-base, exp.tokStart[i], exp.tokEnd[i]), cs)
					return
				}
				// the two runes INSIDE the phrase are not trimmed by anything: they keep their own spans
				for k, kid := range nt.Children() {
					if len(nt.Children()) != 2 || int(kid.Pos())-base != exp.tokStart[i]+k || int(kid.ReaderPos())-base != exp.tokStart[i]+k+1 {
						res.Violate("wrong-token-span", fmt.Sprintf("%s: rune %d inside phrase %d spans <%d,%d>, expected <%d,%d> (only the right-trimmed node's own end moves)", where, k, i, int(kid.Pos())-base, int(kid.ReaderPos())-base, exp.tokStart[i]+k, exp.tokStart[i]+k+1), cs)
						return
					}
				}
				continue
			}
			lit, isLit := c.(parsley.LiteralNode)
			if !isLit || lit.Value() != tokRune(i, ws[i].kind) || int(c.Pos())-base != exp.tokStart[i] || int(c.ReaderPos())-base != exp.tokEnd[i] {
				res.Violate("wrong-token-span", fmt.Sprintf("%s: token %d is %v<%d,%d>, expected %q<%d,%d> (own start, end moved only by a right trim)", where, i, c.Token(), int(c.Pos())-base, int(c.ReaderPos())-base, string(tokenRunes[i]), exp.tokStart[i], exp.tokEnd[i]), cs)
				return
			}
		}
	}
}

func orAny(s string) string {
	if s == "" {
		return "whitespace that no trim owns"
	}
	return s
}

var wsChars = []string{" ", "\t", "\n", "\f"}

func wsStrings(maxLen int) []string {
	var out []string
	eachString(wsChars, maxLen, func(_ int64, s string, _ []int) { out = append(out, s) })
	return out
}

type c10Plan struct {
	// lines: three tokens, the middle one a line-break token without trims (a line-oriented grammar), behind the
	// lenient look-ahead alternative, which probes the whitespace after the first token on a path that is abandoned
	lines    bool
	named    bool // the sequence carries a Name
	kinds    bool // every assignment of token kinds {rune, optional rune, two-rune phrase} except all-rune; every token text variant
	alt      bool
	k        int
	wrappers []wrapper
	outer    int // max whitespace length in the first and last gap
	inner    int // ... in the gaps between tokens
}

func c10Plans(tier string) []c10Plan {
	all := allWrappers()
	if tier == "thorough" {
		return []c10Plan{{false, false, false, false, 1, all, 3, 0}, {false, false, false, false, 2, all, 2, 3}, {false, false, false, false, 3, reducedWrappers, 1, 2}, {false, false, false, true, 2, all, 1, 3},
			{false, false, true, false, 1, all, 2, 0}, {false, false, true, false, 2, all, 1, 2}, {false, false, true, false, 3, reducedWrappers, 1, 1},
			{false, true, false, false, 1, all, 2, 0}, {false, true, false, false, 2, all, 1, 2},
			{true, false, false, true, 3, all, 1, 2}}
	}
	return []c10Plan{{false, false, false, false, 1, all, 2, 0}, {false, false, false, false, 2, all, 1, 2}, {false, false, false, false, 3, reducedWrappers, 1, 1}, {false, false, false, true, 2, all, 1, 2},
		{false, false, true, false, 1, all, 1, 0}, {false, false, true, false, 2, all, 1, 1},
		{false, true, false, false, 1, all, 1, 0}, {false, true, false, false, 2, all, 1, 1},
		{true, false, false, true, 3, all, 1, 1}}
}

func c10Run(env *explore.Env) *explore.Result {
	res := explore.NewResult()
	defer func() { c10Named = false }()
	var idx int64
	for _, pl := range c10Plans(env.Tier) {
		outer, inner := wsStrings(pl.outer), wsStrings(pl.inner)
		combo := make([]wrapper, pl.k)
		var recW func(i int)
		recW = func(i int) {
			if i == pl.k {
				mine := env.Mine(idx)
				idx++
				if !mine {
					return
				}
				ws := append([]wrapper{}, combo...)
				c10Named = pl.named
				if pl.kinds {
					plain := true
					for _, w := range ws {
						plain = plain && w.kind == 0
					}
					if plain {
						return // the all-rune assignment is the subject of the other plans
					}
				}
				p := buildSeq(ws)
				if pl.alt {
					p = buildSeqAlt(ws)
				}
				c10History = nil
				res.Add("states", 1)
				gaps := make([]string, pl.k+1)
				var recG func(g int)
				recG = func(g int) {
					if g == pl.k+1 {
						// every text variant of every token: an optional token present / absent, a phrase complete / cut short
						texts := make([]string, pl.k)
						var recT func(j int)
						recT = func(j int) {
							if j == pl.k {
								var sb strings.Builder
								for t := 0; t <= pl.k; t++ {
									sb.WriteString(gaps[t])
									if t < pl.k {
										sb.WriteString(texts[t])
									}
								}
								in := sb.String()
								c10One(res, ws, p, in, pl.alt, false)
								res.Add("traces", 1)
								if strings.Contains(in, "\n") {
									c10One(res, ws, p, strings.ReplaceAll(in, "\n", "\r\n"), pl.alt, false)
									res.Add("traces", 1)
									res.Add("crlf_variants", 1)
								}
								return
							}
							c := string(tokenRunes[j])
							variants := []string{c}
							switch ws[j].kind {
							case 1, 4:
								variants = []string{c, ""}
							case 2:
								variants = []string{c + "x", c}
							case 5:
								variants = []string{c, c + "x"}
							case 3:
								variants = []string{"\n"}
							}
							for _, v := range variants {
								texts[j] = v
								recT(j + 1)
							}
						}
						recT(0)
						return
					}
					menu := inner
					if g == 0 || g == pl.k {
						menu = outer
					}
					for _, s := range menu {
						gaps[g] = s
						recG(g + 1)
					}
				}
				recG(0)
				nontrivial := false
				for _, w := range ws {
					nontrivial = nontrivial || w.hasL || w.hasR
				}
				if nontrivial {
					res.Add("nontrivial", 1)
				}
				if idx%97 == 1 {
					res.Sample(fmt.Sprintf("%d token(s) wrapped as %v: every whitespace string (outer gaps <= %d, inner <= %d) in every gap, plus CRLF variants", pl.k, ws, pl.outer, pl.inner))
				}
				return
			}
			if pl.lines && i == 1 {
				combo[i] = wrapper{kind: 3}
				recW(i + 1)
				return
			}
			for _, w := range pl.wrappers {
				kinds := []int{0}
				if pl.kinds {
					kinds = []int{0, 1, 2}
				}
				if pl.kinds && !w.hasL && !w.hasR {
					kinds = append(kinds, 4)
				}
				if pl.kinds && (!w.hasL || (w.hasR && w.l == text.WsSpacesNl && w.r == text.WsSpacesNl)) {
					kinds = append(kinds, 5) // under a right trim or bare (a left trim in front adds nothing new)
				}
				for _, kd := range kinds {
					w.kind = kd
					combo[i] = w
					recW(i + 1)
				}
			}
		}
		recW(0)
	}
	return res
}

func c10Replay(raw json.RawMessage) *explore.Result {
	res := explore.NewResult()
	defer func() { c10Named = false }()
	var c c10Case
	if err := json.Unmarshal(raw, &c); err != nil {
		res.Notes = append(res.Notes, "bad case")
		return res
	}
	in, err := strconv.Unquote(c.Input)
	if err != nil {
		res.Notes = append(res.Notes, "bad input")
		return res
	}
	var ws []wrapper
	for _, code := range c.Codes {
		ws = append(ws, wrapper{hasL: code[0] == 1, l: text.WsMode(code[1]), hasR: code[2] == 1, r: text.WsMode(code[3]), kind: code[4]})
	}
	c10Named = c.Named
	p := buildSeq(ws)
	if c.Alt && len(ws) >= 2 {
		p = buildSeqAlt(ws)
	}
	c10History = nil
	for _, h := range c.History {
		if hin, err := strconv.Unquote(h); err == nil {
			c10One(explore.NewResult(), ws, p, hin, c.Alt, false) // re-create what the parser object has seen
		}
	}
	c10One(res, ws, p, in, c.Alt, true)
	return res
}

// c10Workloads offers trimmed token sequences to C12 (placement invariance).
func c10Workloads() []c12Workload {
	ws2 := [][]wrapper{
		{{hasL: true, l: text.WsSpaces}, {hasL: true, hasR: true, l: text.WsSpacesNl, r: text.WsSpacesNl}},
		{{hasR: true, r: text.WsSpacesForceNl}, {hasL: true, l: text.WsNone}},
		{{hasL: true, hasR: true, l: text.WsNone, r: text.WsSpaces}, {hasR: true, r: text.WsNone}},
	}
	var out []c12Workload
	for _, ws := range ws2 {
		ws := ws
		out = append(out, c12Workload{name: fmt.Sprintf("trimmed tokens %v", ws), parser: func() parsley.Parser { return buildSeq(ws) }, inputs: func(tier string, f func(int64, string)) {
			max := 2
			if tier == "thorough" {
				max = 3
			}
			var idx int64
			menu := wsStrings(max)
			for _, g0 := range menu {
				for _, g1 := range menu {
					for _, g2 := range wsStrings(1) {
						f(idx, g0+"a"+g1+"b"+g2)
						idx++
					}
				}
			}
		}})
	}
	return out
}

func init() {
	explore.Register(&explore.Check{
		ID:    "C10",
		Level: "model_checking",
		Rule: "token sequences of 1..3 distinct runes under Sentence(SeqOf(W1(t1)..Wk(tk))): k=1,2 (k=2 also behind a lenient look-ahead alternative that crosses the gap and fails later) with every wrapper of {none, LeftTrim(L), RightTrim(R), RightTrim(LeftTrim(.,L),R)} for all four modes (25 per token), k=3 with 7 representative wrappers; EVERY whitespace string up to the gap bounds over {space, tab, LF, FF} independently in every gap, plus the CRLF variant of every input containing LF; " +
			"against a left-to-right specification (each trim sees the maximal run at its position): acceptance, exact whitespace error text with independently computed line:column, token starts/values/ends; state = one wrapper assignment; transition = one parse; non-trivial = an assignment with at least one trim",
		Assume: []string{"specification in mc/ix/c10.go written from the statement; where whitespace is owned by no trim only 'the parse fails' is required (the statement does not say where a not-found error is reported)"},
		Run:    c10Run,
		Replay: c10Replay,
		Bounds: func(tier string) map[string]any {
			m := map[string]any{}
			for _, p := range c10Plans(tier) {
				m[fmt.Sprintf("k=%d", p.k)] = fmt.Sprintf("%d wrappers per token, outer gaps <= %d, inner gaps <= %d", len(p.wrappers), p.outer, p.inner)
			}
			return m
		},
	})
}
