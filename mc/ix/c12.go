package ix

import (
	"encoding/json"
	"fmt"
	"strconv"
	"strings"

	"github.com/opsidian/parsley/combinator"
	"github.com/opsidian/parsley/data"
	"github.com/opsidian/parsley/parsley"
	"github.com/opsidian/parsley/text"

	"verif/mc/explore"
	"verif/mc/gram"
	"verif/mc/impl"
)

// C12 — parsing is invariant under the file's placement in a file set.
// Differential: the workload corpora of the other checks (arithmetic strings,
// JSON token strings, every literal parser at every offset, generated grammars,
// trimmed token sequences) are parsed with the file alone and at five other
// placements, and as the first / second file of a set whose other file is
// parsed as well (so that lookups in one file precede lookups in another).

type c12Workload struct {
	name   string
	parser func() parsley.Parser
	inputs func(tier string, f func(idx int64, s string))
	direct bool // call Parser.Parse at every offset instead of parsley.Parse/Evaluate
}

type c12Obs struct {
	tree  string
	value string
	err   string
	calls int
}

func (o c12Obs) String() string {
	return fmt.Sprintf("tree=%s value=%s err=%q calls=%d", o.tree, o.value, o.err, o.calls)
}

// observeAt parses content (the file under test f with reader r at base) and renders everything relative to the file start.
func c12Observe(p parsley.Parser, fs *parsley.FileSet, f *text.File, rd *text.Reader, base int, direct bool, n int) (out []c12Obs, panicMsg string) {
	newReader := func() *text.Reader {
		if rd != nil {
			return rd // a reader that was created before the file was added to the set
		}
		return text.NewReader(f)
	}
	panicMsg = guard(func() {
		if direct {
			r := newReader()
			ctx := parsley.NewContext(fs, r)
			for o := 0; o <= n; o++ {
				node, _, err := p.Parse(ctx, data.EmptyIntMap, parsley.Pos(base+o))
				ob := c12Obs{tree: impl.Render(node, base), calls: ctx.CallCount()}
				if err != nil {
					ob.err = fmt.Sprintf("%s @+%d", err.Error(), int(err.Pos())-base)
				}
				if l, ok := node.(parsley.LiteralNode); ok {
					ob.value = fmt.Sprintf("%#v", l.Value())
				}
				out = append(out, ob)
			}
			return
		}
		ctx := parsley.NewContext(fs, newReader())
		node, err := parsley.Parse(ctx, p)
		ob := c12Obs{tree: impl.Render(node, base), calls: ctx.CallCount()}
		if err != nil {
			ob.err = err.Error()
		}
		ctx2 := parsley.NewContext(fs, newReader())
		v, err2 := parsley.Evaluate(ctx2, p)
		ob.value = fmt.Sprintf("%#v", v)
		if err2 != nil {
			ob.value = "error: " + err2.Error()
		}
		out = append(out, ob)
	})
	return
}

type c12Case struct {
	Workload string `json:"workload"`
	Input    string `json:"input"` // Go-quoted
}

func c12One(res *explore.Result, wl *c12Workload, p parsley.Parser, s string, verbose bool) {
	cs := c12Case{wl.name, strconv.Quote(s)}
	raw := []byte(s)
	n := len(strings.ReplaceAll(s, "\r\n", "\n"))
	var ref []c12Obs
	res.Add("states", 1)
	compare := func(how string, got []c12Obs, pm string) bool {
		res.Add("transitions", 1)
		if pm != "" {
			res.Violate("panic", fmt.Sprintf("%s on %s, %s: panic: %s", wl.name, q(s), how, pm), cs)
			return false
		}
		if ref == nil {
			ref = got
			return true
		}
		for i := range got {
			if i >= len(ref) || got[i] != ref[i] {
				field := "tree"
				switch {
				case i < len(ref) && got[i].tree == ref[i].tree && got[i].value == ref[i].value && got[i].err == ref[i].err:
					field = "call-count"
				case i < len(ref) && got[i].tree == ref[i].tree && got[i].value == ref[i].value:
					field = "error"
				case i < len(ref) && got[i].tree == ref[i].tree:
					field = "value"
				}
				if field == "call-count" {
					// trees, values and messages agree and only the amount of work differs: the statement is about
					// results; recorded, not judged
					res.Add("placements_with_different_call_count_only", 1)
					continue
				}
				res.Violate("placement-dependent:"+field, fmt.Sprintf("%s on %s (observation %d): alone: %s | %s: %s", wl.name, q(s), i, ref[i], how, got[i]), cs)
				return false
			}
		}
		return true
	}
	for pi, pl := range placements {
		fs, f, r0, base := place(pl, "f", raw)
		if !pl.readerFirst {
			r0 = nil
		}
		got, pm := c12Observe(p, fs, f, r0, base, wl.direct, n)
		if !compare(pl.name, got, pm) {
			return
		}
		if pi == 0 && verbose {
			res.Notes = append(res.Notes, fmt.Sprintf("alone: %v", got))
		}
	}
	// ONE file and ONE reader used twice: parsed with the file alone, then the file is registered again behind a 2-byte
	// file in a fresh set (its base offset changes) and parsed once more through the same reader: what a reader or a
	// file remembers from the first use must not leak into the second
	{
		f := text.NewFile("f", scratchCopy(raw))
		scribble()
		rd := text.NewReader(f)
		got, pm := c12Observe(p, parsley.NewFileSet(f), f, rd, 1, wl.direct, n)
		if !compare("alone, first use of a file and reader that are used again", got, pm) {
			return
		}
		fs2 := parsley.NewFileSet(text.NewFile("pre0", []byte("xy")))
		fs2.AddFile(f)
		got, pm = c12Observe(p, fs2, f, rd, 4, wl.direct, n)
		if !compare("same file and same reader after the file was registered again behind a 2-byte file", got, pm) {
			return
		}
	}
	// two files with the same content in one set: parse the first then the second, and the other way round
	for _, order := range [][2]int{{0, 1}, {1, 0}} {
		f0, f1 := text.NewFile("f", raw), text.NewFile("f", raw)
		fs := parsley.NewFileSet(f0, f1)
		files := []*text.File{f0, f1}
		bases := []int{1, 1 + n + 1}
		for _, k := range order {
			got, pm := c12Observe(p, fs, files[k], nil, bases[k], wl.direct, n)
			if !compare(fmt.Sprintf("file #%d of a two-file set, parsed in order %v", k+1, order), got, pm) {
				return
			}
		}
	}
	res.Add("traces", 1)
	if len(ref) > 0 && (ref[0].err != "" || strings.Contains(ref[0].tree, "(")) {
		res.Add("nontrivial", 1)
	}
}

func c12Workloads() []c12Workload {
	var wls []c12Workload
	wls = append(wls, c12Workload{name: "arithmetic", parser: ArithParser, inputs: func(tier string, f func(int64, string)) {
		max := 4
		if tier == "thorough" {
			max = 5
		}
		eachString(c05Symbols, max, func(idx int64, s string, _ []int) { f(idx, s) })
		for i, s := range c05Families() {
			if i%7 == 0 {
				f(int64(i), s)
			}
		}
	}})
	wls = append(wls, c12Workload{name: "json example", parser: JSONRoot, inputs: func(tier string, f func(int64, string)) {
		max := 3
		if tier == "thorough" {
			max = 4
		}
		toks := append(append([]string{}, c16Tokens...), " ", "\n")
		eachString(toks, max, func(idx int64, s string, _ []int) { f(idx, s) })
		for i, s := range c16Families() {
			f(int64(i), s)
		}
	}})
	for i := range literalParsers {
		lp := &literalParsers[i]
		wls = append(wls, c12Workload{name: "literal " + lp.name, direct: true, parser: func() parsley.Parser { return lp.p }, inputs: func(tier string, f func(int64, string)) {
			max := 3
			if tier == "thorough" {
				max = 4
			}
			eachString(lp.symbols, max, func(idx int64, s string, _ []int) { f(idx, s) })
		}})
	}
	// generated left-recursive grammars under Sentence (curtailment depends on Remaining, which must be offset-relative)
	sp := &gram.Space{Name: "full-1nt", Alpha: gram.Full, NNT: 1, Min: 1, Max: 4}
	var grams []*gram.Grammar
	sp.Each(func(_ int64, g *gram.Grammar) {
		if an := gram.Analyze(g); an.RepsConsume && g.FirstTerminal() != 'b' {
			grams = append(grams, g)
		}
	})
	for _, seed := range []string{"N0=(any (seq N0 b) a)", "N0=(seq (any N0 a (opt N0)) b)", "N0=(any (seq (opt b) N0 b) a)", "N0=(any (seq N0 b N0) a)",
		// several memoized parsers that meet at the same positions with different outcomes
		"N0=(any (seq N1 a) a); N1=(any (seq N0 b) b)", "S0!=a; S1!=b; root=(seq (any S0 S1) (any S0 S1))",
		"S0!=(any a (seq a b)); S1!=(choice b a); root=(any (seq S0 S1) (seq S1 S0))", "N0=(any (seq N0 a) S0 a); S0!=(opt b); root=(seq N0 S0)",
		"S0!=(opt b); S1!=a; S2!=(seq a b); root=(seq S0 (any S1 S2) (any S2 S1 S0))"} {
		if g, err := gram.Parse(seed); err == nil {
			grams = append(grams, g)
		}
	}
	wls = append(wls, c12Workload{name: "generated grammars (size <= 4 + seeds) under Sentence", parser: nil, inputs: func(tier string, f func(int64, string)) {
		max := 3
		if tier == "thorough" {
			max = 4
		}
		var idx int64
		for gi := range grams {
			for _, w := range gram.Inputs([]byte{'a', 'b'}, max) {
				f(idx, fmt.Sprintf("%d|%s", gi, w))
				idx++
			}
		}
	}})
	c12Grammars = grams
	for i := range c10Workloads() {
		wls = append(wls, c10Workloads()[i])
	}
	return wls
}

var c12Grammars []*gram.Grammar
var c12Built = map[int]parsley.Parser{}

func c12GrammarParser(gi int) parsley.Parser {
	if p, ok := c12Built[gi]; ok {
		return p
	}
	b := impl.Build(c12Grammars[gi], impl.Options{Interp: impl.Concat, Bare: true})
	p := combinator.Sentence(b.Root)
	c12Built[gi] = p
	return p
}

func c12Run(env *explore.Env) *explore.Result {
	res := explore.NewResult()
	var off int64
	for _, wl := range c12Workloads() {
		wl := wl
		var p parsley.Parser
		if wl.parser != nil {
			p = wl.parser()
		}
		count := int64(0)
		wl.inputs(env.Tier, func(idx int64, s string) {
			count++
			if !env.Mine(idx + off) {
				return
			}
			pp, in := p, s
			if wl.parser == nil {
				parts := strings.SplitN(s, "|", 2)
				gi, _ := strconv.Atoi(parts[0])
				pp, in = c12GrammarParser(gi), parts[1]
				before := res.ViolationCount
				c12One(res, &wl, pp, in, false)
				if res.ViolationCount > before {
					res.Notes = append(res.Notes, "grammar of the violating case: "+c12Grammars[gi].String())
				}
				return
			}
			c12One(res, &wl, pp, in, false)
			if idx%30011 == 2 {
				res.Sample(fmt.Sprintf("%s on %s at %d placements + both files of a two-file set", wl.name, q(in), len(placements)))
			}
		})
		res.Add("workload_inputs:"+wl.name, 0)
		off += 13
	}
	return res
}

func c12Replay(raw json.RawMessage) *explore.Result {
	res := explore.NewResult()
	var c c12Case
	if err := json.Unmarshal(raw, &c); err != nil {
		res.Notes = append(res.Notes, "bad case")
		return res
	}
	s, err := strconv.Unquote(c.Input)
	if err != nil {
		res.Notes = append(res.Notes, "bad input")
		return res
	}
	for _, wl := range c12Workloads() {
		wl := wl
		if wl.name != c.Workload {
			continue
		}
		if wl.parser != nil {
			c12One(res, &wl, wl.parser(), s, true)
			return res
		}
		// generated grammars: the input does not carry the grammar; replay every grammar on this input
		for gi := range c12Grammars {
			c12One(res, &wl, c12GrammarParser(gi), s, false)
		}
	}
	return res
}

func init() {
	explore.Register(&explore.Check{
		ID:    "C12",
		Level: "model_checking",
		Rule: "differential over placements: each input of the workload corpora (arithmetic strings <= 4/5 symbols + long families, JSON token strings <= 3/4 tokens + families, every literal parser on every string <= 3/4 symbols at every offset, every terminating grammar of <= 4 nodes + left-recursive seeds on every input <= 3/4, trimmed token sequences) is parsed with its file alone, after preceding files giving base offsets 2, 5, 3, 10 and 1000 (once more with the reader created before the file was added to the set), and as first and second file of a two-file set whose other file is parsed before/after it; " +
			"rendered trees (positions relative to the file start), values, error texts (which carry line:column) must be identical (a difference in CallCount alone is recorded, not judged); state = one (workload, input); transition = one placement; non-trivial = an input that yields an error or a non-terminal tree",
		Assume: []string{"the file alone (base offset 1) is the reference; equality of rendered trees after subtracting the base offset"},
		Run:    c12Run,
		Replay: c12Replay,
		Bounds: func(tier string) map[string]any {
			return map[string]any{"placements": len(placements) + 4, "workloads": len(c12Workloads())}
		},
	})
}
