package ix

import (
	"bytes"
	"encoding/json"
	"fmt"
	"math"
	"reflect"
	"strconv"
	"strings"
	"time"
	"unicode/utf8"

	"github.com/opsidian/parsley/data"
	"github.com/opsidian/parsley/parsley"
	"github.com/opsidian/parsley/text/terminal"

	"verif/mc/explore"
)

// C08 — built-in literal parsers are total and agree with Go's conversions.
// Per literal parser: ALL byte strings up to a length bound over an alphabet
// drawn from the literal's own syntax plus the bytes that drive its edge
// branches, applied at EVERY offset; plus boundary families that length-bounded
// enumeration cannot reach (int64 / float64 / duration range edges, long
// escapes). Oracle: hand-written scanners for each documented syntax (no regexp
// package, no library call) and strconv / time / utf8 as conversion oracles.

type expect struct {
	unspecified bool // the documentation is silent: totality and position sanity only
	ok          bool // a node is expected (else: no node and an error)
	end         int  // end offset of the lexeme
	val         any
	why         string
}

type litParser struct {
	name    string
	p       parsley.Parser
	symbols []string
	maxLen  [2]int // quick, thorough
	scan    func(d []byte, o int) expect
	family  func() []string
}

func isDigit(b byte) bool { return b >= '0' && b <= '9' }
func isHex(b byte) bool {
	return isDigit(b) || (b >= 'a' && b <= 'f') || (b >= 'A' && b <= 'F')
}

func scanInteger(d []byte, o int) expect {
	n := len(d)
	i := o
	if i < n && (d[i] == '-' || d[i] == '+') {
		i++
	}
	if i >= n {
		return expect{}
	}
	switch {
	case d[i] >= '1' && d[i] <= '9':
		for i < n && isDigit(d[i]) {
			i++
		}
	case d[i] == '0':
		if i+2 < n && (d[i+1] == 'x' || d[i+1] == 'X') && isHex(d[i+2]) {
			i += 2
			for i < n && isHex(d[i]) {
				i++
			}
		} else {
			i++
			for i < n && d[i] >= '0' && d[i] <= '7' {
				i++
			}
		}
	default:
		return expect{}
	}
	if i < n && d[i] == '.' {
		return expect{why: "an integer lexeme directly followed by '.' is refused (prefix of a float)"}
	}
	v, err := strconv.ParseInt(string(d[o:i]), 0, 64)
	if err != nil {
		return expect{why: "strconv.ParseInt reports " + err.Error()}
	}
	return expect{ok: true, end: i, val: v}
}

func scanFloat(d []byte, o int) expect {
	n := len(d)
	i := o
	if i < n && (d[i] == '-' || d[i] == '+') {
		i++
	}
	for i < n && isDigit(d[i]) {
		i++
	}
	if !(i+1 < n && d[i] == '.' && isDigit(d[i+1])) {
		return expect{}
	}
	i++
	for i < n && isDigit(d[i]) {
		i++
	}
	if i < n && (d[i] == 'e' || d[i] == 'E') {
		m := i + 1
		if m < n && (d[m] == '-' || d[m] == '+') {
			m++
		}
		if m < n && isDigit(d[m]) {
			for m < n && isDigit(d[m]) {
				m++
			}
			i = m
		}
	}
	v, err := strconv.ParseFloat(string(d[o:i]), 64)
	if err != nil {
		return expect{why: "strconv.ParseFloat reports " + err.Error()}
	}
	return expect{ok: true, end: i, val: v}
}

// decodeEscape decodes one backslash escape of Go's syntax at d[i] == '\\' for
// the given quote; returns the code point and the index after it, or ok=false.
func decodeEscape(d []byte, i int, quote byte) (rune, int, bool) {
	n := len(d)
	if i+1 >= n {
		return 0, 0, false
	}
	c := d[i+1]
	simple := map[byte]rune{'a': 7, 'b': 8, 'f': 12, 'n': 10, 'r': 13, 't': 9, 'v': 11, '\\': '\\'}
	if r, ok := simple[c]; ok {
		return r, i + 2, true
	}
	if c == quote {
		return rune(quote), i + 2, true
	}
	hexN := func(k int) (rune, int, bool) {
		if i+2+k > n {
			return 0, 0, false
		}
		var v int64
		for j := 0; j < k; j++ {
			b := d[i+2+j]
			if !isHex(b) {
				return 0, 0, false
			}
			var x int64
			switch {
			case isDigit(b):
				x = int64(b - '0')
			case b >= 'a':
				x = int64(b-'a') + 10
			default:
				x = int64(b-'A') + 10
			}
			v = v<<4 | x
		}
		if v > 0x10FFFF {
			return 0, i + 2 + k, false
		}
		return rune(v), i + 2 + k, true
	}
	switch c {
	case 'x':
		return hexN(2)
	case 'u', 'U':
		k := 4
		if c == 'U' {
			k = 8
		}
		v, e, ok := hexN(k)
		if !ok || v > 0x10FFFF || (v >= 0xD800 && v <= 0xDFFF) {
			return 0, 0, false
		}
		return v, e, true
	}
	if c >= '0' && c <= '7' {
		if i+4 > n {
			return 0, 0, false
		}
		var v rune
		for j := 1; j <= 3; j++ {
			b := d[i+j]
			if b < '0' || b > '7' {
				return 0, 0, false
			}
			v = v<<3 | rune(b-'0')
		}
		if v > 255 {
			return 0, 0, false
		}
		return v, i + 4, true
	}
	return 0, 0, false
}

func scanString(allowBackquote bool) func(d []byte, o int) expect {
	return func(d []byte, o int) expect {
		n := len(d)
		if o >= n {
			return expect{}
		}
		if d[o] == '`' && allowBackquote {
			j := bytes.IndexByte(d[o+1:], '`')
			if j < 0 {
				return expect{why: "unterminated raw string"}
			}
			return expect{ok: true, end: o + 1 + j + 1, val: string(d[o+1 : o+1+j])}
		}
		if d[o] != '"' {
			return expect{}
		}
		var val []byte
		i := o + 1
		for {
			if i >= n {
				return expect{why: "unterminated string"}
			}
			c := d[i]
			switch {
			case c == '"':
				return expect{ok: true, end: i + 1, val: string(val)}
			case c == '\r' || c == '\n':
				// The code rejects a raw line break before the first escape / non-ASCII byte and accepts it
				// after; the documentation says nothing. Totality only.
				return expect{unspecified: true, why: "raw CR/LF inside a quoted string"}
			case c == '\\':
				r, e, ok := decodeEscape(d, i, '"')
				if !ok {
					return expect{why: "invalid escape sequence"}
				}
				val = append(val, string(r)...)
				i = e
			case c >= utf8.RuneSelf:
				r, w := utf8.DecodeRune(d[i:])
				if r == utf8.RuneError && w == 1 {
					return expect{unspecified: true, why: "raw invalid UTF-8 inside a quoted string"}
				}
				val = append(val, d[i:i+w]...)
				i += w
			default:
				val = append(val, c)
				i++
			}
		}
	}
}

func scanChar(d []byte, o int) expect {
	n := len(d)
	if o >= n || d[o] != '\'' {
		return expect{}
	}
	i := o + 1
	if i >= n {
		return expect{why: "nothing after the opening quote"}
	}
	var r rune
	if d[i] == '\\' {
		// documented escapes of char.go: \a \b \f \n \r \t \v \' \xhh \uhhhh \Uhhhhhhhh
		rr, e, ok := decodeEscape(d, i, '\'')
		syntactic := false
		if i+1 < n {
			switch d[i+1] {
			case 'a', 'b', 'f', 'n', 'r', 't', 'v', '\'':
				syntactic = true
			case 'x', 'u', 'U':
				k := map[byte]int{'x': 2, 'u': 4, 'U': 8}[d[i+1]]
				syntactic = i+2+k <= n
				for j := 0; syntactic && j < k; j++ {
					syntactic = isHex(d[i+2+j])
				}
				if syntactic && !ok {
					// well-formed digits but not a valid code point: the lexeme is complete, the value is invalid
					e = i + 2 + k
				}
			}
		}
		if !syntactic {
			// not one of the documented escapes: the backslash itself is the single character
			if i+1 < n && d[i+1] == '\'' {
				return expect{unspecified: true}
			}
			if i+1 < n && d[i+1] != '\'' {
				return expect{why: "a lone backslash must be followed by the closing quote"}
			}
			return expect{why: "unterminated"}
		}
		if e >= n || d[e] != '\'' {
			return expect{why: "missing closing quote"}
		}
		if !ok {
			return expect{why: "escape does not denote a valid code point"}
		}
		return expect{ok: true, end: e + 1, val: rr}
	}
	if d[i] == '\'' {
		return expect{why: "empty character literal"}
	}
	rr, w := utf8.DecodeRune(d[i:])
	r = rr
	if i+w >= n || d[i+w] != '\'' {
		return expect{why: "missing closing quote"}
	}
	return expect{ok: true, end: i + w + 1, val: r}
}

func scanWord(word string, val func() any) func(d []byte, o int) expect {
	return func(d []byte, o int) expect {
		if bytes.HasPrefix(d[o:], []byte(word)) {
			e := o + len(word)
			if e == len(d) || !isWordByte(d[e]) {
				return expect{ok: true, end: e, val: val()}
			}
		}
		return expect{}
	}
}

func scanBool(t, f string) func(d []byte, o int) expect {
	st, sf := scanWord(t, func() any { return true }), scanWord(f, func() any { return false })
	return func(d []byte, o int) expect {
		if e := st(d, o); e.ok {
			return e
		}
		return sf(d, o)
	}
}

func scanOptGroup(d []byte, o int) expect { // a(?:=(b+))?, value = group 1 ("" when the group takes no part)
	n := len(d)
	if o >= n || d[o] != 'a' {
		return expect{}
	}
	if o+2 < n+0 && d[o+1] == '=' && d[o+2] == 'b' {
		i := o + 2
		for i < n && d[i] == 'b' {
			i++
		}
		return expect{ok: true, end: i, val: string(d[o+2 : i])}
	}
	return expect{ok: true, end: o + 1, val: ""}
}

func scanNever(d []byte, o int) expect { return expect{} }

func scanPrefix(s string, val any) func(d []byte, o int) expect {
	return func(d []byte, o int) expect {
		if bytes.HasPrefix(d[o:], []byte(s)) {
			return expect{ok: true, end: o + len(s), val: val}
		}
		return expect{}
	}
}

func scanLower(d []byte, o int) expect { // [a-z]+
	i := o
	for i < len(d) && d[i] >= 'a' && d[i] <= 'z' {
		i++
	}
	if i == o {
		return expect{}
	}
	return expect{ok: true, end: i, val: string(d[o:i])}
}

func scanABC(d []byte, o int) expect { // a(b*)c, value = group 1
	n := len(d)
	if o >= n || d[o] != 'a' {
		return expect{}
	}
	i := o + 1
	for i < n && d[i] == 'b' {
		i++
	}
	if i >= n || d[i] != 'c' {
		return expect{}
	}
	return expect{ok: true, end: i + 1, val: string(d[o+1 : i])}
}

func scanFooBar(d []byte, o int) expect { // foo|ba+r : the alternation is anchored at the offset as a whole
	if bytes.HasPrefix(d[o:], []byte("foo")) {
		return expect{ok: true, end: o + 3, val: "foo"}
	}
	if o+2 < len(d) && d[o] == 'b' && d[o+1] == 'a' {
		i := o + 1
		for i < len(d) && d[i] == 'a' {
			i++
		}
		if i < len(d) && d[i] == 'r' {
			return expect{ok: true, end: i + 1, val: string(d[o : i+1])}
		}
	}
	return expect{}
}

var durUnits = []string{"ns", "us", "µs", "μs", "ms", "s", "m", "h"}

func scanDuration(d []byte, o int) expect {
	n := len(d)
	i := o
	if i < n && (d[i] == '-' || d[i] == '+') {
		i++
	}
	groups := 0
	for {
		j := i
		if !(j < n && isDigit(d[j])) {
			break
		}
		for j < n && isDigit(d[j]) {
			j++
		}
		if j+1 < n && d[j] == '.' && isDigit(d[j+1]) {
			j++
			for j < n && isDigit(d[j]) {
				j++
			}
		}
		unit := ""
		for _, u := range durUnits { // first alternative that matches, as the documented alternation is ordered
			if bytes.HasPrefix(d[j:], []byte(u)) {
				unit = u
				break
			}
		}
		if unit == "" {
			break
		}
		i = j + len(unit)
		groups++
	}
	if groups == 0 {
		return expect{}
	}
	v, err := time.ParseDuration(string(d[o:i]))
	if err != nil {
		return expect{why: "time.ParseDuration reports " + err.Error()}
	}
	return expect{ok: true, end: i, val: v}
}

func around(center string, delta int) []string { // decimal strings within +-delta of a big number
	var out []string
	c, _ := strconv.ParseUint(center, 10, 64)
	for k := -delta; k <= delta; k++ {
		v := c + uint64(int64(k))
		out = append(out, strconv.FormatUint(v, 10))
	}
	return out
}

func integerFamily() []string {
	var out []string
	for _, s := range around("9223372036854775807", 300) {
		out = append(out, s, "-"+s, "+"+s)
	}
	for _, s := range around("18446744073709551615", 20)[:21] {
		out = append(out, s, "-"+s)
	}
	for k := int64(-40); k <= 40; k++ {
		u := uint64(1<<63) + uint64(k)
		out = append(out, "0x"+strconv.FormatUint(u, 16), "-0x"+strconv.FormatUint(u, 16), "0X"+strings.ToUpper(strconv.FormatUint(u, 16)),
			"0"+strconv.FormatUint(u, 8), "-0"+strconv.FormatUint(u, 8))
	}
	out = append(out, "99999999999999999999999999", "-99999999999999999999999999", "0xffffffffffffffffffffffff", "07777777777777777777777777777")
	return out
}

func floatFamily() []string {
	var out []string
	for _, m := range []string{"1.0", "1.79", "1.8", "9.99", ".5", "4.9", "2.47", "2.48"} {
		for e := 300; e <= 330; e++ {
			for _, sg := range []string{"", "-", "+"} {
				out = append(out, sg+m+"e"+strconv.Itoa(e), sg+m+"e-"+strconv.Itoa(e), sg+m+"E+"+strconv.Itoa(e))
			}
		}
	}
	out = append(out, "0.1e999999", "0.1e-999999", "123456789012345678901234567890.5", "0.000000000000000000000000000000000000000000000000001")
	return out
}

func escapeFamily(q string) []string {
	var out []string
	esc := []string{`\a`, `\b`, `\f`, `\n`, `\r`, `\t`, `\v`, `\\`, `\'`, `\"`, `\/`, `\q`, `\x41`, `\xff`, `\x4`, `\xg1`, `\101`, `\377`, `\400`, `\08`, `é`, `€`, `퟿`, `\ud800`, `\udfff`, ``, `\u12`,
		`\U0001F600`, `\U0010FFFF`, `\U00110000`, `\U0010fffe`, `\U00000000`, `\U0000D800`, `\U0010FFF`, `\UFFFFFFFF`, `\u0000`}
	// escapes denoting the code points at every UTF-8 length boundary, the surrogate range, the replacement
	// character (which decoders use as an error sentinel) and the ends of the code space, in both hex cases
	for _, cp := range []int{0, 0x7f, 0x80, 0x7ff, 0x800, 0xd7ff, 0xd800, 0xdfff, 0xe000, 0xfffc, 0xfffd, 0xfffe, 0xffff, 0x10000, 0x10fffd, 0x10ffff, 0x110000} {
		if cp <= 0xffff {
			esc = append(esc, fmt.Sprintf(`\u%04x`, cp), fmt.Sprintf(`\u%04X`, cp))
		}
		esc = append(esc, fmt.Sprintf(`\U%08x`, cp), fmt.Sprintf(`\U%08X`, cp))
		if cp <= 0xff {
			esc = append(esc, fmt.Sprintf(`\x%02x`, cp), fmt.Sprintf(`\%03o`, cp))
		}
	}
	raw := []string{"", "a", "é", "€", "\xff", "\xc3", " ", "😀", "\ufffd", "\xef\xbf", "\xed\xa0\x80"}
	for _, e := range esc {
		out = append(out, q+e+q, q+e, q+"a"+e+q, q+e+"a"+q, q+"é"+e+q)
		for _, e2 := range esc[:14] {
			out = append(out, q+e+e2+q)
		}
	}
	for _, r := range raw {
		out = append(out, q+r+q, q+r, q+r+r+q, q+"a"+r+q)
	}
	return out
}

func durationFamily() []string {
	var out []string
	// around +-2^63 ns in each unit
	out = append(out, "9223372036854775807ns", "9223372036854775808ns", "-9223372036854775808ns", "-9223372036854775809ns",
		"9223372036854775us", "9223372036854776us", "9223372036854ms", "9223372037s", "9223372036s", "153722867m", "153722868m", "2562047h", "2562048h", "-2562047h", "-2562048h",
		"2562047h47m16.854775807s", "2562047h47m16.854775808s", "1h1m1s1ms1us1ns", "1.5h", "1.h", ".5h", "1h.5m", "0.000000001s", "1µs", "1μs", "1us2µs3μs", "1m2", "1ms", "1sm", "1hh", "+1h", "-1.5h30m", "00h", "1.0000000000000000000000001h")
	for k := 0; k < 60; k++ {
		out = append(out, strconv.Itoa(2562040+k)+"h", strconv.Itoa(153722860+k)+"m")
	}
	return out
}

var literalParsers = []litParser{
	{name: "Integer", p: terminal.Integer(nil), symbols: []string{"0", "1", "7", "8", "9", "x", "a", "F", "-", "+", ".", " "}, maxLen: [2]int{5, 6}, scan: scanInteger, family: integerFamily},
	{name: "Float", p: terminal.Float(nil), symbols: []string{"0", "1", "9", ".", "e", "E", "-", "+", " "}, maxLen: [2]int{6, 7}, scan: scanFloat, family: floatFamily},
	{name: "String(false)", p: terminal.String(nil, false), symbols: []string{`"`, "`", "a", `\`, "n", "u", "x", "0", "1", "q", "/", "é", "\xff", " ", "\r", "\n"}, maxLen: [2]int{5, 6}, scan: scanString(false), family: func() []string { return escapeFamily(`"`) }},
	{name: "String(true)", p: terminal.String(nil, true), symbols: []string{`"`, "`", "a", `\`, "n", "x", "4", "é", "\xff", "\n"}, maxLen: [2]int{5, 6}, scan: scanString(true), family: func() []string { return append(escapeFamily("`"), escapeFamily(`"`)...) }},
	{name: "Char", p: terminal.Char(nil), symbols: []string{"'", `\`, "a", "n", "x", "u", "U", "0", "1", "F", `"`, "é", "\xff"}, maxLen: [2]int{5, 6}, scan: scanChar, family: func() []string { return escapeFamily("'") }},
	{name: `Bool("true","false")`, p: terminal.Bool(nil, "true", "false"), symbols: []string{"true", "false", "t", "e", "_", "1", " ", "."}, maxLen: [2]int{4, 5}, scan: scanBool("true", "false")},
	{name: `Bool("T","F")`, p: terminal.Bool(nil, "T", "F"), symbols: []string{"T", "F", "_", "1", " ", ".", "é"}, maxLen: [2]int{4, 5}, scan: scanBool("T", "F")},
	{name: `Nil("null")`, p: terminal.Nil(nil, "null"), symbols: []string{"null", "n", "u", "l", "_", "1", " ", "."}, maxLen: [2]int{4, 5}, scan: scanWord("null", func() any { return nil })},
	{name: `Word("ab",42)`, p: terminal.Word(nil, "ab", 42), symbols: []string{"a", "b", "_", "1", " ", ".", "\xff"}, maxLen: [2]int{5, 6}, scan: scanWord("ab", func() any { return 42 })},
	{name: `Op("+")`, p: terminal.Op("+"), symbols: []string{"+", "&", "a", " "}, maxLen: [2]int{4, 5}, scan: scanPrefix("+", "+")},
	{name: `Op("&&")`, p: terminal.Op("&&"), symbols: []string{"+", "&", "a", " "}, maxLen: [2]int{4, 5}, scan: scanPrefix("&&", "&&")},
	{name: `Op("é")`, p: terminal.Op("é"), symbols: []string{"é", "\xc3", "\xa9", "a"}, maxLen: [2]int{4, 5}, scan: scanPrefix("é", "é")},
	{name: `Rune('a')`, p: terminal.Rune('a'), symbols: []string{"a", "b", "é", "\xe1"}, maxLen: [2]int{4, 5}, scan: scanPrefix("a", 'a')},
	{name: `Rune('é')`, p: terminal.Rune('é'), symbols: []string{"é", "\xc3", "\xa9", "a", "\xe9"}, maxLen: [2]int{4, 5}, scan: scanPrefix("é", 'é')},
	{name: `Rune('€')`, p: terminal.Rune('€'), symbols: []string{"€", "\xe2", "\x82", "\xac", "a"}, maxLen: [2]int{4, 5}, scan: scanPrefix("€", '€')},
	{name: "Regexp([a-z]+,0)", p: terminal.Regexp(nil, "ID", "identifier", "[a-z]+", 0), symbols: []string{"a", "b", "c", "1", " ", "Z"}, maxLen: [2]int{5, 6}, scan: scanLower},
	{name: "Regexp(a(b*)c,1)", p: terminal.Regexp(nil, "ABC", "abc", "a(b*)c", 1), symbols: []string{"a", "b", "c", "1", " "}, maxLen: [2]int{5, 6}, scan: scanABC},
	{name: "Regexp(foo|ba+r,0)", p: terminal.Regexp(nil, "KW", "keyword", "foo|ba+r", 0), symbols: []string{"foo", "bar", "a", "f", "b", "r", "-"}, maxLen: [2]int{5, 6}, scan: scanFooBar},
	{name: "Regexp(^foo|ba+r,0)", p: terminal.Regexp(nil, "KW", "keyword", "^foo|ba+r", 0), symbols: []string{"foo", "bar", "a", "f", "b", "r", "-"}, maxLen: [2]int{4, 5}, scan: scanFooBar},
	{name: "Regexp(a(?:=(b+))?,1)", p: terminal.Regexp(nil, "KV", "key", "a(?:=(b+))?", 1), symbols: []string{"a", "=", "b", " "}, maxLen: [2]int{5, 6}, scan: scanOptGroup},
	// runes that have no UTF-8 encoding can never be read from a file, whatever bytes stand there
	{name: `Rune(0xD800)`, p: terminal.Rune(0xD800), symbols: []string{"\uFFFD", "\xed\xa0\x80", "\xed", "a"}, maxLen: [2]int{3, 4}, scan: scanNever},
	{name: `Rune(0x110000)`, p: terminal.Rune(0x110000), symbols: []string{"\uFFFD", "\xf4\x90\x80\x80", "\xf4", "a"}, maxLen: [2]int{3, 4}, scan: scanNever},
	{name: "TimeDuration", p: terminal.TimeDuration(nil), symbols: []string{"0", "1", ".", "h", "m", "s", "n", "u", "µ", "μ", "-", "+", " "}, maxLen: [2]int{5, 6}, scan: scanDuration, family: durationFamily},
}

type c08Case struct {
	Parser  string `json:"parser"`
	Content string `json:"content"` // Go-quoted
}

func valEqual(a, b any) bool {
	if fa, ok := a.(float64); ok {
		fb, ok2 := b.(float64)
		return ok2 && math.Float64bits(fa) == math.Float64bits(fb)
	}
	return reflect.DeepEqual(a, b)
}

func c08Content(res *explore.Result, lp *litParser, content string, verbose bool) {
	c08ContentAt(res, lp, content, 0, verbose)
	if len(content) <= 3 {
		// short strings also with the file at other places of a file set (incl. a reader created before the file was added)
		for pi := 1; pi < len(placements); pi++ {
			c08ContentAt(res, lp, content, pi, false)
		}
	}
}

func c08ContentAt(res *explore.Result, lp *litParser, content string, pi int, verbose bool) {
	raw := []byte(content)
	d := bytes.Replace(raw, []byte("\r\n"), []byte("\n"), -1)
	fs, _, r, base := place(placements[pi], "f", raw)
	ctx := parsley.NewContext(fs, r)
	n := len(d)
	// results of the first pass over the offsets; a second pass on the same file and context must repeat them
	// (parsing must not change the file it reads)
	first := make([]string, n+1)
	defer func() {
		for o := 0; o <= n; o++ {
			var node parsley.Node
			var err parsley.Error
			if pm := guard(func() { node, _, err = lp.p.Parse(ctx, data.EmptyIntMap, parsley.Pos(base+o)) }); pm != "" {
				continue
			}
			if got := c08Show(node, err, base); got != first[o] && first[o] != "" {
				res.Violate("second-parse-differs:"+lp.name, fmt.Sprintf("%s on %s at offset %d: the first parse gave %s, parsing the same bytes again gives %s", lp.name, q(content), o, first[o], got), c08Case{lp.name, strconv.Quote(content)})
				return
			}
		}
	}()
	cs := c08Case{lp.name, strconv.Quote(content)}
	if pi > 0 {
		cs.Parser = lp.name // the replay runs every placement for short strings
	}
	for o := 0; o <= n; o++ {
		exp := lp.scan(d, o)
		res.Add("transitions", 1)
		var node parsley.Node
		var err parsley.Error
		where := fmt.Sprintf("%s on %s at offset %d", lp.name, q(content), o)
		if pi > 0 {
			where += " (file " + placements[pi].name + ")"
		}
		if pm := guard(func() { node, _, err = lp.p.Parse(ctx, data.EmptyIntMap, parsley.Pos(base+o)) }); pm != "" {
			res.Violate("panic:"+lp.name, where+": panic: "+pm, cs)
			continue
		}
		first[o] = c08Show(node, err, base)
		if (node == nil) == (err == nil) {
			res.Violate("node-xor-error:"+lp.name, fmt.Sprintf("%s: returned node=%v and error=%v (exactly one must be set)", where, node, err), cs)
			continue
		}
		if err != nil {
			if ep := int(err.Pos()) - base; ep < o || ep > n {
				res.Violate("error-position:"+lp.name, fmt.Sprintf("%s: error %q at %d, outside [offset %d, end %d]", where, err.Error(), ep, o, n), cs)
			}
		} else {
			if np, ne := int(node.Pos())-base, int(node.ReaderPos())-base; np != o || ne <= o || ne > n {
				res.Violate("node-span:"+lp.name, fmt.Sprintf("%s: node spans <%d,%d>, must start at the offset and end inside the input", where, np, ne), cs)
				continue
			}
		}
		if exp.unspecified {
			res.Add("offsets_where_documentation_is_silent", 1)
			continue
		}
		switch {
		case exp.ok && node == nil:
			res.Violate("rejects-literal:"+lp.name, fmt.Sprintf("%s: the literal %s (value %v) is not accepted: %v", where, q(string(d[o:exp.end])), exp.val, err), cs)
		case !exp.ok && node != nil:
			res.Violate("accepts-non-literal:"+lp.name, fmt.Sprintf("%s: returned a node <%d,%d> value %v but no literal is expected here (%s)", where, o, int(node.ReaderPos())-base, valueOf(node), exp.why), cs)
		case exp.ok:
			res.Add("literals_accepted", 1)
			if ne := int(node.ReaderPos()) - base; ne != exp.end {
				res.Violate("wrong-end:"+lp.name, fmt.Sprintf("%s: node ends at %d, the longest literal %s ends at %d", where, ne, q(string(d[o:exp.end])), exp.end), cs)
			} else if got := valueOf(node); !valEqual(got, exp.val) {
				res.Violate("wrong-value:"+lp.name, fmt.Sprintf("%s: literal %s has value %#v, expected %#v", where, q(string(d[o:exp.end])), got, exp.val), cs)
			}
		}
		if verbose {
			res.Notes = append(res.Notes, fmt.Sprintf("offset %d: expected %+v; got node=%v err=%v", o, exp, node, err))
		}
	}
}

func c08Show(node parsley.Node, err parsley.Error, base int) string {
	if err != nil {
		return fmt.Sprintf("error %q at %d", err.Error(), int(err.Pos())-base)
	}
	if node == nil {
		return "nil"
	}
	return fmt.Sprintf("%s<%d,%d>=%#v", node.Token(), int(node.Pos())-base, int(node.ReaderPos())-base, valueOf(node))
}

func valueOf(n parsley.Node) any {
	if l, ok := n.(parsley.LiteralNode); ok {
		return l.Value()
	}
	return fmt.Sprintf("<%T has no literal value>", n)
}

func c08Run(env *explore.Env) *explore.Result {
	res := explore.NewResult()
	eachString(c08InterleavedSymbols, 3, func(idx int64, s string, _ []int) {
		if env.Mine(idx) {
			c08Interleaved(res, s, false)
			res.Add("interleaved_contents", 1)
		}
	})
	tierIdx := 0
	if env.Thorough() {
		tierIdx = 1
	}
	var off int64
	for pi := range literalParsers {
		lp := &literalParsers[pi]
		eachString(lp.symbols, lp.maxLen[tierIdx], func(idx int64, s string, _ []int) {
			if !env.Mine(idx + off) {
				return
			}
			before := res.Counters["literals_accepted"]
			c08Content(res, lp, s, false)
			res.Add("states", 1)
			res.Add("traces", 1)
			if res.Counters["literals_accepted"] > before {
				res.Add("nontrivial", 1)
			}
			if idx%50021 == 7 {
				res.Sample(fmt.Sprintf("%s on %s at every offset", lp.name, q(s)))
			}
		})
		off += 7
		if lp.family != nil {
			for i, s := range lp.family() {
				if !env.Mine(int64(i) + off) {
					continue
				}
				before := res.Counters["literals_accepted"]
				for _, ctxt := range []string{s, " " + s + " ", s + ".", "x" + s} {
					c08Content(res, lp, ctxt, false)
					res.Add("states", 1)
					res.Add("traces", 1)
				}
				res.Add("boundary_family_members", 1)
				if res.Counters["literals_accepted"] > before {
					res.Add("nontrivial", 1)
				}
			}
		}
	}
	return res
}

// c08Interleaved: several regexp-based literal parsers used in turn on ONE reader and context (as the alternatives of
// a Choice are), every ordered pair A,B called as A,B,A,B at every offset; each answer is held to the same scanner as
// when the parser has the reader to itself. What a reader remembers about one expression must not answer for another.
var c08InterleavedSymbols = []string{"1", ".", "5", "a", "'", "h", " "}

func c08Interleaved(res *explore.Result, content string, verbose bool) {
	var ps []*litParser
	for i := range literalParsers {
		switch literalParsers[i].name {
		case "Integer", "Float", "Char", "Regexp([a-z]+,0)", "TimeDuration":
			ps = append(ps, &literalParsers[i])
		}
	}
	raw := []byte(content)
	d := bytes.Replace(raw, []byte("\r\n"), []byte("\n"), -1)
	cs := c08Case{"interleaved", strconv.Quote(content)}
	for _, a := range ps {
		for _, b := range ps {
			if a == b {
				continue
			}
			fs, _, r, base := place(placements[0], "f", raw)
			ctx := parsley.NewContext(fs, r)
			for o := 0; o <= len(d); o++ {
				for step, lp := range []*litParser{a, b, a, b} {
					exp := lp.scan(d, o)
					res.Add("transitions", 1)
					var node parsley.Node
					var err parsley.Error
					where := fmt.Sprintf("%s (call %d of the sequence %s, %s, %s, %s on one reader) on %s at offset %d", lp.name, step+1, a.name, b.name, a.name, b.name, q(content), o)
					if pm := guard(func() { node, _, err = lp.p.Parse(ctx, data.EmptyIntMap, parsley.Pos(base+o)) }); pm != "" {
						res.Violate("panic:"+lp.name, where+": panic: "+pm, cs)
						return
					}
					if exp.unspecified {
						continue
					}
					switch {
					case exp.ok != (node != nil):
						res.Violate("interleaved-parsers-on-one-reader:"+lp.name, fmt.Sprintf("%s: got %s, the scanner expects ok=%v end=%d value=%v", where, c08Show(node, err, base), exp.ok, exp.end, exp.val), cs)
						return
					case exp.ok && (int(node.ReaderPos())-base != exp.end || !valEqual(valueOf(node), exp.val)):
						res.Violate("interleaved-parsers-on-one-reader:"+lp.name, fmt.Sprintf("%s: got %s, the scanner expects end=%d value=%#v", where, c08Show(node, err, base), exp.end, exp.val), cs)
						return
					}
				}
			}
		}
	}
	if verbose {
		res.Notes = append(res.Notes, "interleaved sequences of "+fmt.Sprint(len(ps))+" parsers on "+q(content)+" agree with the scanners")
	}
}

func c08Replay(raw json.RawMessage) *explore.Result {
	res := explore.NewResult()
	var c c08Case
	if err := json.Unmarshal(raw, &c); err != nil {
		res.Notes = append(res.Notes, "bad case: "+err.Error())
		return res
	}
	s, err := strconv.Unquote(c.Content)
	if err != nil {
		res.Notes = append(res.Notes, "bad case content")
		return res
	}
	if c.Parser == "interleaved" {
		c08Interleaved(res, s, true)
		return res
	}
	for pi := range literalParsers {
		if literalParsers[pi].name == c.Parser {
			c08Content(res, &literalParsers[pi], s, true)
		}
	}
	return res
}

func init() {
	explore.Register(&explore.Check{
		ID:    "C08",
		Level: "model_checking",
		Rule: "for each of 23 literal-parser configurations: every byte string of 0..N symbols over that literal's alphabet (syntax characters + the bytes that drive its edge branches, incl. multi-byte runes, invalid UTF-8, CR/LF) parsed at EVERY offset, plus complete boundary families (int64/uint64 edges in decimal/hex/octal, float64 overflow/underflow exponents, every escape form incl. surrogates and out-of-range code points, durations around +-2^63 ns); " +
			"plus every ordered pair of five regexp-based parsers called A,B,A,B on one reader at every offset of every string of <= 3 symbols; oracle: hand-written scanner of the documented syntax + strconv/time/utf8 conversions; state = one byte string; transition = one Parse call at one offset; non-trivial = a string in which at least one offset holds an accepted literal",
		Assume: []string{
			"the documented syntax of each literal is the one its parser's pattern states (re-implemented by hand in mc/ix/c08.go); strconv.ParseInt/ParseFloat, time.ParseDuration and unicode/utf8 are the conversion oracles",
			"where the documentation is silent only totality and position sanity are judged: raw CR/LF or raw invalid UTF-8 inside a double-quoted string, a character literal that is a lone backslash",
		},
		Run:    c08Run,
		Replay: c08Replay,
		Bounds: func(tier string) map[string]any {
			i := 0
			if tier == "thorough" {
				i = 1
			}
			m := map[string]any{}
			for _, lp := range literalParsers {
				m[lp.name] = fmt.Sprintf("%d symbols, length <= %d", len(lp.symbols), lp.maxLen[i])
			}
			return m
		},
	})
}
