// Package ix holds the bounded-exhaustive input-space enumerators (C05, C08,
// C09, C10, C11, C12, C13, C16, C17): a small alphabet chosen so that every
// branch named in the anchor code has a symbol that triggers it, ALL strings /
// shapes up to the bound, a reference model written from the property statement,
// comparison on every case.
package ix

import (
	"fmt"
	"os"
	"strings"

	"github.com/opsidian/parsley/parsley"
	"github.com/opsidian/parsley/text"

	"verif/mc/explore"
)

// eachString enumerates every concatenation of 0..maxLen symbols (shortest
// first); idx numbers them consecutively.
func eachString(symbols []string, maxLen int, f func(idx int64, s string, syms []int)) {
	var idx int64
	cur := make([]int, 0, maxLen)
	var rec func(left int)
	var sb strings.Builder
	emit := func() {
		sb.Reset()
		for _, i := range cur {
			sb.WriteString(symbols[i])
		}
		f(idx, sb.String(), cur)
		idx++
	}
	for l := 0; l <= maxLen; l++ {
		rec = func(left int) {
			if left == 0 {
				emit()
				return
			}
			for i := range symbols {
				cur = append(cur, i)
				rec(left - 1)
				cur = cur[:len(cur)-1]
			}
		}
		rec(l)
	}
}

// placement describes where the file under test sits in a file set.
type placement struct {
	name      string
	preceding []int // lengths of the files added before it
	// readerFirst: the reader is created BEFORE the file is added to the set (the order
	// examples/json/json/parser_test.go uses), so anything it copied from the file at construction is stale
	readerFirst bool
	// reRegister: the file is first added behind the preceding files and the reader created, then the same file is
	// added as the only file of a FRESH set (its base offset changes back to 1) and used through that set
	reRegister bool
	// sharedPrefix: the set is built with NewFileSet(list...) from a caller-owned slice with spare capacity, the file is
	// added, and then the caller builds a SECOND set from the same slice and adds a different file to that one
	sharedPrefix bool
	// following: lengths of files added AFTER the file under test (a lookup must not depend on being the last file)
	following []int
	// fromDisk: the file is loaded with text.ReadFile from a scratch file and is NOT added to any set (a file on its
	// own has base offset 1); the returned file set is empty
	fromDisk bool
}

var placements = []placement{
	{"alone", nil, false, false, false, nil, false},
	{"after an empty file", []int{0}, false, false, false, nil, false},
	{"after a 3-byte file", []int{3}, false, false, false, nil, false},
	{"after two empty files", []int{0, 0}, false, false, false, nil, false},
	{"after files of 2 and 5 bytes", []int{2, 5}, false, false, false, nil, false},
	{"after a 998-byte file", []int{998}, false, false, false, nil, false},
	{"after a 3-byte file, reader created before the file was added", []int{3}, true, false, false, nil, false},
	{"registered after a 5-byte file, reader created, then registered again alone in a fresh set", []int{5}, false, true, false, nil, false},
	{"after files of 2 and 3 bytes passed as a caller-owned list with spare capacity, from which the caller then builds another set", []int{2, 3}, false, false, true, nil, false},
	{"second of four files (3 bytes before; 2 and 4 bytes after)", []int{3}, false, false, false, []int{2, 4}, false},
	{"third of six files", []int{1, 2}, false, false, false, []int{0, 3, 1}, false},
	// base offsets at the widths a packed cache key or a narrowed integer might assume (stub files: no data is allocated)
	{"after a 65535-byte file", []int{65535}, false, false, false, nil, false},
	{"after a 2 GiB file", []int{1<<31 - 1}, false, false, false, nil, false},
	{"after files of 3 bytes and 4 GiB", []int{3, 1 << 32}, false, false, false, nil, false},
	{"after files of 3 bytes and 8 GiB", []int{3, 1 << 33}, false, false, false, nil, false},
}

// stubFile stands in for a huge preceding file: it only has a length.
type stubFile struct {
	name   string
	length int
	offset int
}

func (f *stubFile) Position(int) parsley.Position { return parsley.NilPosition }
func (f *stubFile) Pos(p int) parsley.Pos         { return parsley.Pos(f.offset + p) }
func (f *stubFile) Len() int                      { return f.length }
func (f *stubFile) SetOffset(o int)               { f.offset = o }

// place builds a file set with the preceding files and the file under test; it
// returns the file, a reader on it and the expected base offset computed from
// the documented layout (first base 1, files separated by one unused position).
func place(pl placement, name string, content []byte) (*parsley.FileSet, *text.File, *text.Reader, int) {
	fs, f, r, base := place0(pl, name, scratchCopy(content))
	scribble()
	return fs, f, r, base
}

// The bytes handed to text.NewFile live in a scratch buffer of the harness that is overwritten as soon as the file
// exists (a caller reading documents through one reused buffer does the same): the file must hold its own copy.
var scratch []byte

func scratchCopy(content []byte) []byte {
	scratch = append(scratch[:0], content...)
	return scratch
}

func scribble() {
	for i := range scratch {
		scratch[i] = '#'
	}
}

// placementFromDisk is used by C09 only (the file's name is the scratch path, which differential checks would see)
var placementFromDisk = placement{name: "loaded with text.ReadFile, not added to a file set", fromDisk: true}

// diskScratch: one scratch file per process for the fromDisk placement (overwritten every time)
var diskScratch string

func place0(pl placement, name string, content []byte) (*parsley.FileSet, *text.File, *text.Reader, int) {
	if pl.fromDisk {
		if diskScratch == "" {
			tf, err := os.CreateTemp("", "verif-ix-*")
			if err != nil {
				panic("IX harness: " + err.Error())
			}
			diskScratch = tf.Name()
			tf.Close()
		}
		if err := os.WriteFile(diskScratch, content, 0o600); err != nil {
			panic("IX harness: " + err.Error())
		}
		f, err := text.ReadFile(diskScratch)
		if err != nil {
			panic("IX harness: " + err.Error())
		}
		return parsley.NewFileSet(), f, text.NewReader(f), 1
	}
	if pl.sharedPrefix {
		list := make([]parsley.File, 0, len(pl.preceding)+4)
		base := 1
		for i, l := range pl.preceding {
			list = append(list, text.NewFile(fmt.Sprintf("pre%d", i), []byte(strings.Repeat("x", l))))
			base += l + 1
		}
		fs := parsley.NewFileSet(list...)
		f := text.NewFile(name, content)
		fs.AddFile(f)
		// what the caller does with its own list afterwards must not reach into the first set
		other := parsley.NewFileSet(list...)
		other.AddFile(text.NewFile("other", []byte("zz\nzz\nzz\nzz")))
		return fs, f, text.NewReader(f), base
	}
	fs := parsley.NewFileSet()
	base := 1
	for i, l := range pl.preceding {
		if l > 1<<20 {
			fs.AddFile(&stubFile{name: fmt.Sprintf("pre%d", i), length: l})
		} else {
			fs.AddFile(text.NewFile(fmt.Sprintf("pre%d", i), []byte(strings.Repeat("x", l))))
		}
		base += l + 1
	}
	f := text.NewFile(name, content)
	if pl.readerFirst {
		r := text.NewReader(f)
		fs.AddFile(f)
		return fs, f, r, base
	}
	fs.AddFile(f)
	for i, l := range pl.following {
		fs.AddFile(text.NewFile(fmt.Sprintf("post%d", i), []byte(strings.Repeat("y", l))))
	}
	if pl.reRegister {
		r := text.NewReader(f)
		return parsley.NewFileSet(f), f, r, 1
	}
	return fs, f, text.NewReader(f), base
}

func q(s string) string { return fmt.Sprintf("%q", s) }

// guard runs f, returning a panic message if it panicked.
func guard(f func()) string {
	p, msg := explore.Guard(f)
	if p {
		return msg
	}
	return ""
}
