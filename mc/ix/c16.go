package ix

import (
	"bytes"
	stdjson "encoding/json"
	"fmt"
	"io"
	"math"
	"os"
	"reflect"
	"strconv"
	"strings"

	"github.com/opsidian/parsley/combinator"
	"github.com/opsidian/parsley/examples/json/json"
	"github.com/opsidian/parsley/parsley"
	"github.com/opsidian/parsley/text"

	"verif/mc/explore"
)

// C16 — the example JSON parser agrees with encoding/json on the supported
// subset. ALL token strings up to a length bound over a 20-token alphabet; for
// every valid document additionally every assignment of whitespace to every gap
// the grammar's modes allow; plus escape / number boundary families.

var c16Tokens = []string{"{", "}", "[", "]", ",", ":", `"a"`, `""`, `"\né"`, `"é"`, "0", "-1", "12", "1.5", "-0.25e2", "true", "false", "null", "1e2", `"\/"`}

// tokens outside the subset the example grammar supports (valid JSON, but the grammar has no rule for them)
var c16OutOfSubset = map[string]bool{"1e2": true, `"\/"`: true}

// JSONRoot is the example parser as examples/json/json.go uses it (also used by C12, C14).
func JSONRoot() parsley.Parser { return combinator.Sentence(text.Trim(json.NewParser())) }

// One parser object serves up to c16Renew documents (a parser is meant to be reused; state it keeps between
// parses is part of the case): the documents parsed before with the same object are recorded and replayed.
var jsonRoot = JSONRoot()
var c16Hist []string

const c16Renew = 16

func c16RenewParser() {
	jsonRoot, c16Hist = JSONRoot(), nil
}

// stdDecode decodes with encoding/json (UseNumber); ok=false when the text is not exactly one JSON value.
// truncated reports that the text is a proper prefix of a valid document.
func stdDecode(s string) (v interface{}, ok bool, truncated bool, inSubset bool) {
	dec := stdjson.NewDecoder(strings.NewReader(s))
	dec.UseNumber()
	var raw interface{}
	if err := dec.Decode(&raw); err != nil {
		return nil, false, err == io.ErrUnexpectedEOF || err == io.EOF, true
	}
	// nothing but whitespace may follow
	var extra interface{}
	if err := dec.Decode(&extra); err != io.EOF {
		return nil, false, false, true
	}
	inSubset = true
	var conv func(x interface{}) interface{}
	conv = func(x interface{}) interface{} {
		switch t := x.(type) {
		case stdjson.Number:
			str := string(t)
			if strings.ContainsAny(str, ".eE") {
				if !strings.Contains(str, ".") {
					inSubset = false // exponent without a fraction: the grammar has no such number
				}
				f, err := strconv.ParseFloat(str, 64)
				if err != nil {
					inSubset = false
				}
				return f
			}
			i, err := strconv.ParseInt(str, 10, 64)
			if err != nil {
				inSubset = false
			}
			return i
		case []interface{}:
			out := make([]interface{}, len(t))
			for i, e := range t {
				out[i] = conv(e)
			}
			return out
		case map[string]interface{}:
			out := make(map[string]interface{}, len(t))
			for k, e := range t {
				out[k] = conv(e)
			}
			return out
		}
		return x
	}
	return conv(raw), true, false, inSubset
}

func jsonEqual(a, b interface{}) bool {
	if fa, ok := a.(float64); ok {
		fb, ok2 := b.(float64)
		return ok2 && math.Float64bits(fa) == math.Float64bits(fb)
	}
	switch ta := a.(type) {
	case []interface{}:
		tb, ok := b.([]interface{})
		if !ok || len(ta) != len(tb) {
			return false
		}
		for i := range ta {
			if !jsonEqual(ta[i], tb[i]) {
				return false
			}
		}
		return true
	case map[string]interface{}:
		tb, ok := b.(map[string]interface{})
		if !ok || len(ta) != len(tb) {
			return false
		}
		for k, v := range ta {
			w, ok := tb[k]
			if !ok || !jsonEqual(v, w) {
				return false
			}
		}
		return true
	}
	return reflect.DeepEqual(a, b)
}

// c16OnDisk writes a document to one scratch file of this process (overwritten every time) and returns its path.
var c16Scratch string

// at most c16DiskBudget documents per worker process take the trip over the disk (the first ones with a line break)
var c16DiskDocs = 0

const c16DiskBudget = 1500

func c16OnDisk(doc string) string {
	if c16Scratch == "" {
		f, err := os.CreateTemp("", "verif-c16-*.json")
		if err != nil {
			return ""
		}
		c16Scratch = f.Name()
		f.Close()
	}
	if err := os.WriteFile(c16Scratch, []byte(doc), 0o600); err != nil {
		return ""
	}
	return c16Scratch
}

func c16Cleanup() {
	if c16Scratch != "" {
		os.Remove(c16Scratch)
		c16Scratch = ""
	}
}

type c16Case struct {
	Doc       string   `json:"document"` // Go-quoted
	Placement int      `json:"file_placement,omitempty"`
	History   []string `json:"documents_parsed_before_with_this_parser_object,omitempty"` // Go-quoted
}

type c16Verdict int

const (
	c16MustEqual c16Verdict = iota
	c16MustFail
	c16TotalOnly
)

// c16Text runs one document text against the oracle. class says what the statement demands.
// c16Placement: 0 = the document's file alone; other indexes of `placements` put it behind other files
var c16Placement = 0

func c16Text(res *explore.Result, doc string, verdict c16Verdict, want interface{}, why string, verbose bool) {
	if len(c16Hist) >= c16Renew {
		c16RenewParser()
	}
	cs := c16Case{strconv.Quote(doc), c16Placement, append([]string{}, c16Hist...)}
	c16Hist = append(c16Hist, strconv.Quote(doc))
	fs, c16File, r, _ := place(placements[c16Placement], "f", []byte(doc))
	if c16Placement != 0 {
		why += "; file " + placements[c16Placement].name
	}
	ctx := parsley.NewContext(fs, r)
	var val interface{}
	var err error
	res.Add("transitions", 1)
	if pm := guard(func() { val, err = parsley.Evaluate(ctx, jsonRoot) }); pm != "" {
		res.Violate("panic", fmt.Sprintf("document %s: Evaluate panicked: %s", q(doc), pm), cs)
		return
	}
	if verbose {
		res.Notes = append(res.Notes, fmt.Sprintf("document %s: verdict class %d (%s); library value=%#v err=%v; encoding/json value=%#v", q(doc), verdict, why, val, err, want))
	}
	{
		// the same file evaluated once more through a fresh reader and context: parsing must not have changed what it read
		var val2 interface{}
		var err2 error
		ctx2 := parsley.NewContext(fs, text.NewReader(c16File))
		if pm := guard(func() { val2, err2 = parsley.Evaluate(ctx2, jsonRoot) }); pm != "" {
			res.Violate("panic", fmt.Sprintf("document %s: second Evaluate on the same file panicked: %s", q(doc), pm), cs)
			return
		}
		if (err == nil) != (err2 == nil) || (err != nil && err.Error() != err2.Error()) || (err == nil && !jsonEqual(val, val2)) {
			res.Violate("second-evaluation-of-the-same-file-differs", fmt.Sprintf("document %s: first Evaluate: %#v, %v; second Evaluate on the same file: %#v, %v", q(doc), val, err, val2, err2), cs)
			return
		}
		// and once more with the optional passes switched on (the example's own benchmark enables transformation):
		// the grammar has no transformers or checkers that change anything, so value and error must be the same
		var val3 interface{}
		var err3 error
		ctx3 := parsley.NewContext(fs, text.NewReader(c16File))
		ctx3.EnableTransformation()
		ctx3.EnableStaticCheck()
		if pm := guard(func() { val3, err3 = parsley.Evaluate(ctx3, jsonRoot) }); pm != "" {
			res.Violate("panic", fmt.Sprintf("document %s: Evaluate with transformation and static check enabled panicked: %s", q(doc), pm), cs)
			return
		}
		if (err == nil) != (err3 == nil) || (err != nil && err.Error() != err3.Error()) || (err == nil && !jsonEqual(val, val3)) {
			res.Violate("evaluation-with-optional-passes-differs", fmt.Sprintf("document %s: Evaluate: %#v, %v; with transformation and static check enabled: %#v, %v", q(doc), val, err, val3, err3), cs)
			return
		}
		// documents with line breaks also from disk with Windows line endings (text.ReadFile, CRLF): same value
		if err == nil && strings.Contains(doc, "\n") && !strings.Contains(doc, "\r") && c16Placement == 0 && c16DiskDocs < c16DiskBudget {
			c16DiskDocs++
			if path := c16OnDisk(strings.ReplaceAll(doc, "\n", "\r\n")); path != "" {
				var val4 interface{}
				var err4 error
				if pm := guard(func() {
					f4, rerr := text.ReadFile(path)
					if rerr != nil {
						panic("C16 harness: " + rerr.Error())
					}
					val4, err4 = parsley.Evaluate(parsley.NewContext(parsley.NewFileSet(f4), text.NewReader(f4)), jsonRoot)
				}); pm != "" {
					res.Violate("panic", fmt.Sprintf("document %s read from disk with CRLF line endings: %s", q(doc), pm), cs)
					return
				}
				if err4 != nil || !jsonEqual(val, val4) {
					res.Violate("crlf-file-from-disk-differs", fmt.Sprintf("document %s: value %#v; the same document with CRLF line endings loaded with text.ReadFile: %#v, %v", q(doc), val, val4, err4), cs)
					return
				}
				res.Add("crlf_documents_from_disk", 1)
			}
		}
	}
	if val != nil && err != nil {
		res.Violate("value-and-error", fmt.Sprintf("document %s: value %v AND error %v", q(doc), val, err), cs)
	}
	switch verdict {
	case c16MustEqual:
		if err != nil {
			res.Violate("rejects-valid-document", fmt.Sprintf("document %s is valid JSON inside the supported subset (encoding/json: %#v) but the example parser fails: %v", q(doc), want, err), cs)
		} else if !jsonEqual(val, want) {
			res.Violate("wrong-value", fmt.Sprintf("document %s: example parser %#v, encoding/json %#v", q(doc), val, want), cs)
		}
	case c16MustFail:
		if err == nil {
			res.Violate("accepts-invalid-document", fmt.Sprintf("document %s is not JSON (%s) but the example parser returns %#v", q(doc), why, val), cs)
		}
	}
}

func joinTokens(toks []int) string {
	var sb strings.Builder
	for _, t := range toks {
		sb.WriteString(c16Tokens[t])
	}
	return sb.String()
}

func c16Tokens1(res *explore.Result, toks []int, withWhitespace bool, verbose bool) {
	doc := joinTokens(toks)
	want, ok, truncated, inSubset := stdDecode(doc)
	for _, t := range toks {
		if c16OutOfSubset[c16Tokens[t]] {
			inSubset = false
		}
	}
	res.Add("states", 1)
	res.Add("traces", 1)
	switch {
	case ok && inSubset:
		res.Add("valid_in_subset", 1)
		res.Add("nontrivial", 1)
		c16Text(res, doc, c16MustEqual, want, "valid", verbose)
		if withWhitespace {
			c16Whitespace(res, toks, verbose)
		}
	case ok:
		res.Add("valid_outside_subset_totality_only", 1)
		c16Text(res, doc, c16TotalOnly, want, "valid JSON outside the supported subset", verbose)
	case numericMerge(toks):
		// Adjacent number tokens concatenate into ONE lexeme for the grammar (a literal with a leading zero or a
		// longer fraction), which the grammar accepts although JSON does not: "01", "00", "01.5". That is the
		// leading-zero class the statement leaves open, not a truncation / missing separator / trailing input.
		res.Add("invalid_numeric_merge_totality_only", 1)
		c16Text(res, doc, c16TotalOnly, nil, "adjacent number tokens merge into one lexeme", verbose)
	default:
		why := ""
		switch {
		case truncated:
			why = "a proper prefix of a valid document (truncation)"
		default:
			// valid document followed by more tokens?
			for k := 1; k < len(toks) && why == ""; k++ {
				if _, pok, _, _ := stdDecode(joinTokens(toks[:k])); pok {
					why = "a valid document followed by further input"
				}
			}
			// valid document with one separator removed?
			for k := 1; k < len(toks) && why == ""; k++ {
				for _, sep := range []string{",", ":"} {
					cand := joinTokens(toks[:k]) + sep + joinTokens(toks[k:])
					if _, cok, _, _ := stdDecode(cand); cok {
						why = "a valid document with one '" + sep + "' removed"
						break
					}
				}
			}
		}
		if why != "" {
			res.Add("invalid_in_named_class", 1)
			c16Text(res, doc, c16MustFail, nil, why, verbose)
		} else {
			res.Add("invalid_other_totality_only", 1)
			c16Text(res, doc, c16TotalOnly, nil, "invalid, not in a named class", verbose)
		}
	}
}

func isNumTok(t int) bool {
	c := c16Tokens[t][0]
	return c == '-' || (c >= '0' && c <= '9')
}

func numericMerge(toks []int) bool {
	for i := 0; i+1 < len(toks); i++ {
		if isNumTok(toks[i]) && isNumTok(toks[i+1]) {
			return true
		}
	}
	return false
}

// newlineBeforeSeparator: a line break (possibly followed by blanks) directly before ',' or ':' — JSON allows it,
// the grammar trims separators with WsSpaces and does not: outside "whitespace where the grammar's modes allow it".
func newlineBeforeSeparator(doc string) bool {
	for i := 0; i < len(doc); i++ {
		if doc[i] == ',' || doc[i] == ':' {
			j := i - 1
			for j >= 0 && (doc[j] == ' ' || doc[j] == '\t' || doc[j] == '\n' || doc[j] == '\r') {
				if doc[j] == '\n' || doc[j] == '\r' {
					return true
				}
				j--
			}
		}
	}
	return false
}

var c16Gaps = []string{"", " ", "\n", "\t\n"}

// c16Whitespace assigns whitespace to every gap of a VALID document where the grammar's modes allow it
// (before ',' and ':' only blanks without a line break; everywhere else also line breaks).
func c16Whitespace(res *explore.Result, toks []int, verbose bool) {
	k := len(toks)
	if k > 5 {
		return
	}
	choice := make([]int, k+1)
	var rec func(g int)
	rec = func(g int) {
		if g == k+1 {
			var sb strings.Builder
			all0 := true
			for i := 0; i <= k; i++ {
				sb.WriteString(c16Gaps[choice[i]])
				if choice[i] != 0 {
					all0 = false
				}
				if i < k {
					sb.WriteString(c16Tokens[toks[i]])
				}
			}
			if all0 {
				return
			}
			doc := sb.String()
			want, ok, _, inSubset := stdDecode(doc)
			res.Add("whitespace_variants", 1)
			if ok && inSubset {
				c16Text(res, doc, c16MustEqual, want, "valid, permitted whitespace inserted", verbose)
			} else {
				c16Text(res, doc, c16TotalOnly, nil, "whitespace changed the tokenisation", verbose)
			}
			return
		}
		limit := len(c16Gaps)
		if g < k && (c16Tokens[toks[g]] == "," || c16Tokens[toks[g]] == ":") {
			limit = 2 // the grammar trims these with WsSpaces: no line break before a separator
		}
		for c := 0; c < limit; c++ {
			choice[g] = c
			rec(g + 1)
		}
	}
	rec(0)
}

// ---- structured space: every VALID document up to a token budget over small menus (values, keys incl. an
// empty key, an escape-spelled duplicate of "a", raw and escaped U+FFFD), and for each of them its
// truncations, separator deletions and one-token extensions.

var c16Leaves = []string{`"a"`, `"\u00e9\ufffd"`, "\"\ufffd\"", `0`, `-1.5e1`, `12`, `true`, `null`}
var c16Keys = []string{`"a"`, `""`, `"\u0061"`, "\"\ufffdé\""}
var c16Extra = []string{",", ":", "]", "}", "1", `"a"`, "[", "{"}

// genDocs calls f with the token list of every valid document using exactly n tokens.
func genDocs(n int, f func(toks []string)) {
	var value func(n int, emit func([]string))
	var elems func(n int, emit func([]string))   // non-empty comma separated values using exactly n tokens
	var members func(n int, emit func([]string)) // non-empty comma separated key:value pairs using exactly n tokens
	value = func(n int, emit func([]string)) {
		if n == 1 {
			for _, l := range c16Leaves {
				emit([]string{l})
			}
			return
		}
		if n == 2 {
			emit([]string{"[", "]"})
			emit([]string{"{", "}"})
			return
		}
		if n >= 3 {
			elems(n-2, func(inner []string) { emit(append(append([]string{"["}, inner...), "]")) })
			members(n-2, func(inner []string) { emit(append(append([]string{"{"}, inner...), "}")) })
		}
	}
	elems = func(n int, emit func([]string)) {
		value(n, emit)
		for first := 1; first <= n-2; first++ {
			value(first, func(a []string) {
				elems(n-first-1, func(b []string) {
					emit(append(append(append([]string{}, a...), ","), b...))
				})
			})
		}
	}
	member := func(n int, emit func([]string)) { // key : value
		if n < 3 {
			return
		}
		for _, k := range c16Keys {
			value(n-2, func(v []string) { emit(append([]string{k, ":"}, v...)) })
		}
	}
	members = func(n int, emit func([]string)) {
		member(n, emit)
		for first := 3; first <= n-4; first++ {
			member(first, func(a []string) {
				members(n-first-1, func(b []string) {
					emit(append(append(append([]string{}, a...), ","), b...))
				})
			})
		}
	}
	value(n, f)
}

func numericMergeStr(toks []string) bool {
	num := func(t string) bool { return t[0] == '-' || (t[0] >= '0' && t[0] <= '9') }
	for i := 0; i+1 < len(toks); i++ {
		if num(toks[i]) && num(toks[i+1]) {
			return true
		}
	}
	return false
}

func c16Structured(res *explore.Result, env *explore.Env, maxTokens int) {
	var idx int64
	for n := 1; n <= maxTokens; n++ {
		genDocs(n, func(toks []string) {
			mine := env.Mine(idx)
			idx++
			if !mine {
				return
			}
			doc := strings.Join(toks, "")
			want, ok, _, inSubset := stdDecode(doc)
			res.Add("states", 1)
			res.Add("traces", 1)
			res.Add("structured_valid_documents", 1)
			if !ok || !inSubset {
				res.Notes = append(res.Notes, "generator produced a document encoding/json rejects: "+doc)
				return
			}
			res.Add("nontrivial", 1)
			c16Text(res, doc, c16MustEqual, want, "valid (generated)", false)
			if idx%5003 == 1 {
				res.Sample("generated document " + doc + " with its truncations, separator deletions and one-token extensions")
			}
			judge := func(mut []string, why string) {
				if numericMergeStr(mut) {
					return
				}
				m := strings.Join(mut, "")
				if _, mok, _, _ := stdDecode(m); mok {
					return // still valid JSON (e.g. a prefix that is a document itself): judged when generated
				}
				res.Add("structured_corruptions", 1)
				c16Text(res, m, c16MustFail, nil, why, false)
			}
			for k := 0; k < len(toks); k++ {
				judge(toks[:k], "truncation of a valid document")
			}
			for k, t := range toks {
				if t == "," || t == ":" {
					mut := append(append([]string{}, toks[:k]...), toks[k+1:]...)
					judge(mut, "valid document with one '"+t+"' removed")
				}
			}
			for _, x := range c16Extra {
				judge(append(append([]string{}, toks...), x), "valid document followed by further input")
			}
		})
	}
}

func c16Families() []string {
	var out []string
	for _, e := range []string{`\"`, `\\`, `\b`, `\f`, `\n`, `\r`, `\t`, `A`, `é`, `€`, `￿`, `\u0000`, `\/`, `😀`, `\a`, `\x41`, `\q`, `\u12`, "é", "€", "😀", "\t", "\x7f"} {
		out = append(out, `"`+e+`"`, `["`+e+`"]`, `{"`+e+`":"`+e+`"}`, `"a`+e+`b`+e+`"`)
	}
	for _, n := range []string{"9223372036854775807", "9223372036854775808", "-9223372036854775808", "-9223372036854775809", "0", "-0", "0.0", "-0.0", "1.0e308", "1.8e308", "-1.8e308", "4.9e-324", "2.4e-324", "1.0e-400",
		"0.1", "1.5E3", "1.5e+3", "1.5e-3", "123456789012345678901234567890", "1.234567890123456789012345678901234567890", "01", "+1", ".5", "1.", "1e5", "1E5", "0x10", "1.5e", "--1", "1.5.5"} {
		out = append(out, n, "["+n+"]", `{"k":`+n+`}`, "["+n+","+n+"]")
	}
	out = append(out, `{"a":1,"a":2}`, `{"":{"":{"":[]}}}`, `[[[[[[[[[[]]]]]]]]]]`, `{"a":[1,{"b":[true,false,null]},"c"]}`, "[1,\n2]", "[1\n,2]", `{"a"`+"\n"+`:1}`, `{"a":`+"\n"+`1}`, "[1 ,2]", " \n\t[\n]\n ", "[\f]", "[]\r\n", "{}x", "", " ", "nul", "truee", "[1,]", "[,1]", `{"a":1,}`, `{,}`)
	return out
}

func c16MaxLen(tier string) int {
	if tier == "thorough" {
		return 6
	}
	return 5
}

func c16Run(env *explore.Env) *explore.Result {
	defer c16Cleanup()
	res := explore.NewResult()
	maxLen := c16MaxLen(env.Tier)
	var idx int64
	cur := make([]int, 0, maxLen)
	var rec func(left int)
	for l := 0; l <= maxLen; l++ {
		rec = func(left int) {
			if left == 0 {
				mine := env.Mine(idx)
				idx++
				if mine {
					c16Tokens1(res, cur, true, false)
					if idx%200003 == 5 {
						res.Sample(fmt.Sprintf("token string %q", joinTokens(cur)))
					}
				}
				return
			}
			for t := range c16Tokens {
				cur = append(cur, t)
				rec(left - 1)
				cur = cur[:len(cur)-1]
			}
		}
		rec(l)
	}
	structMax := 9
	if env.Thorough() {
		structMax = 11
	}
	c16Structured(res, env, structMax)
	// the same documents as second file of a set (what the reader and the file know about their own place must not matter)
	for _, pi := range []int{2, 6} {
		c16Placement = pi
		c16Structured(res, env, structMax-2)
	}
	c16Placement = 0
	for i, doc := range c16Families() {
		if !env.Mine(int64(i)) {
			continue
		}
		want, ok, truncated, inSubset := stdDecode(doc)
		if strings.Contains(doc, `\/`) || strings.Contains(doc, `\ud83d`) {
			inSubset = false
		}
		res.Add("states", 1)
		res.Add("traces", 1)
		res.Add("boundary_family_members", 1)
		switch {
		case ok && inSubset && !bytes.ContainsAny([]byte(doc), "\f") && !newlineBeforeSeparator(doc):
			c16Text(res, doc, c16MustEqual, want, "valid (family)", false)
		case !ok && truncated:
			c16Text(res, doc, c16MustFail, nil, "truncated document (family)", false)
		default:
			c16Text(res, doc, c16TotalOnly, want, "family member outside the determined classes", false)
		}
	}
	return res
}

func c16Replay(raw stdjson.RawMessage) *explore.Result {
	defer c16Cleanup()
	res := explore.NewResult()
	var c c16Case
	if err := stdjson.Unmarshal(raw, &c); err != nil {
		res.Notes = append(res.Notes, "bad case: "+err.Error())
		return res
	}
	doc, err := strconv.Unquote(c.Doc)
	if err != nil {
		res.Notes = append(res.Notes, "bad document")
		return res
	}
	if c.Placement > 0 && c.Placement < len(placements) {
		c16Placement = c.Placement
	}
	// bring a fresh parser object into the state it was in: parse the recorded documents first, in order
	c16RenewParser()
	for _, hq := range c.History {
		if h, err := strconv.Unquote(hq); err == nil {
			fs, _, r, _ := place(placements[c16Placement], "f", []byte(h))
			guard(func() { _, _ = parsley.Evaluate(parsley.NewContext(fs, r), jsonRoot) })
		}
	}
	c16Hist = append([]string{}, c.History...)
	// re-derive the verdict the way the enumeration does when the document is a token string; otherwise valid => equal
	want, ok, truncated, inSubset := stdDecode(doc)
	if strings.Contains(doc, `\/`) || strings.Contains(doc, "1e2") {
		inSubset = false
	}
	toks, isTokens := tokenize(doc)
	switch {
	case isTokens:
		c16Tokens1(res, toks, false, true)
	case ok && inSubset && !newlineBeforeSeparator(doc):
		c16Text(res, doc, c16MustEqual, want, "valid", true)
	case !ok && truncated:
		c16Text(res, doc, c16MustFail, nil, "truncated", true)
	default:
		c16Text(res, doc, c16TotalOnly, want, "outside the determined classes", true)
	}
	return res
}

// tokenize splits a whitespace-free document into alphabet tokens, if possible.
func tokenize(doc string) ([]int, bool) {
	var out []int
	for len(doc) > 0 {
		best := -1
		for i, t := range c16Tokens {
			if strings.HasPrefix(doc, t) && (best < 0 || len(t) > len(c16Tokens[best])) {
				best = i
			}
		}
		if best < 0 {
			return nil, false
		}
		out = append(out, best)
		doc = doc[len(c16Tokens[best]):]
	}
	return out, true
}

func init() {
	explore.Register(&explore.Check{
		ID:    "C16",
		Level: "model_checking",
		Rule: "every string of 0..N tokens over a 20-token JSON alphabet (structural tokens, strings with escapes and non-ASCII, ints, decimals, exponent, literals, plus two valid-JSON tokens the grammar does not support) evaluated by the example parser exactly as examples/json/json.go builds it and by encoding/json (UseNumber); " +
			"valid + inside the subset => deeply equal value (floats bit-equal); invalid and (truncation | one separator removed | trailing tokens) => error; anything else => no panic, value xor error; for every valid document of <= 5 tokens additionally EVERY assignment of {none, blank, LF, TAB LF} to every gap the grammar's modes allow; a structured space: EVERY valid document of <= 9 (thorough 11) tokens over small value/key menus (duplicate and empty keys, an escape-spelled duplicate key, raw and escaped U+FFFD) with all its truncations, separator deletions and one-token extensions; plus escape/number boundary families; " +
			"state = one token string; transition = one Evaluate; non-trivial = a valid document inside the subset",
		Assume: []string{"encoding/json is the reference; numbers converted with strconv.ParseInt/ParseFloat; duplicate keys last-wins on both sides", "token strings are concatenated without separators (so adjacent number tokens merge); the verdict is always derived from encoding/json on the actual text"},
		Run:    c16Run,
		Replay: c16Replay,
		Bounds: func(tier string) map[string]any {
			return map[string]any{"tokens": c16Tokens, "max_tokens": c16MaxLen(tier), "whitespace_menu": c16Gaps, "families": len(c16Families())}
		},
	})
}
