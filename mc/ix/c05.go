package ix

import (
	"encoding/json"
	"errors"
	"fmt"
	"os"
	"strconv"
	"strings"

	"github.com/opsidian/parsley/ast"
	"github.com/opsidian/parsley/ast/interpreter"
	"github.com/opsidian/parsley/combinator"
	"github.com/opsidian/parsley/parser"
	"github.com/opsidian/parsley/parsley"
	"github.com/opsidian/parsley/text"
	"github.com/opsidian/parsley/text/terminal"

	"verif/mc/explore"
)

// C05 — the classic left-recursive arithmetic grammar evaluates like a
// reference evaluator. All strings up to a length bound over the 12 symbols
// 0 1 2 9 + - * / ( ) space LF, classified by an independent hand-written
// lexer + recursive-descent evaluator; plus deterministic long families.

// ArithParser builds the grammar from library parts only (also used by C12, C14, C17).
func ArithParser() parsley.Parser { return arithBuild(0) }

// ArithParserExplicitEnd is the same grammar with the end of input spelled out by the grammar writer:
// SeqOf(expr, Trim(End())) with Select(0), instead of Sentence(RightTrim(expr)).
func ArithParserExplicitEnd() parsley.Parser { return arithBuild(1) }

// divByZero is an application's own error type (it implements parsley.Error).
type divByZero struct{ at parsley.Pos }

func (d divByZero) Error() string    { return "division by zero" }
func (d divByZero) Cause() error     { return errors.New("division by zero") }
func (d divByZero) Pos() parsley.Pos { return d.at }

func arithBuild(rootStyle int) parsley.Parser {
	// In the explicit-end formulation the interpreters are written the way an application with its own error type
	// would write them: the division by zero is a user-defined parsley.Error, and an enclosing operator hands a
	// child's error upwards through parsley.NewError(ownPos, err), which is documented to pass an Error through as it is.
	up := func(node parsley.Node, err parsley.Error) parsley.Error {
		if rootStyle == 1 {
			return parsley.NewError(node.Pos(), err)
		}
		return err
	}
	bin := ast.InterpreterFunc(func(userCtx interface{}, node parsley.NonTerminalNode) (interface{}, parsley.Error) {
		ch := node.Children()
		l, err := parsley.EvaluateNode(userCtx, ch[0])
		if err != nil {
			return nil, up(node, err)
		}
		r, err := parsley.EvaluateNode(userCtx, ch[2])
		if err != nil {
			return nil, up(node, err)
		}
		a, b := l.(int64), r.(int64)
		switch ch[1].Token() {
		case "+":
			return a + b, nil
		case "-":
			return a - b, nil
		case "*":
			return a * b, nil
		}
		if b == 0 {
			if rootStyle == 1 {
				return nil, divByZero{ch[1].Pos()}
			}
			return nil, parsley.NewErrorf(ch[1].Pos(), "division by zero")
		}
		return a / b, nil
	})
	tok := func(p parsley.Parser) parsley.Parser { return text.LeftTrim(p, text.WsSpacesNl) }
	var expr, term, factor parser.Func
	addop := combinator.Any(terminal.Rune('+'), terminal.Rune('-'))
	mulop := combinator.Any(terminal.Rune('*'), terminal.Rune('/'))
	factor = combinator.Memoize(combinator.Any(
		tok(terminal.Integer(nil)),
		combinator.SeqOf(tok(terminal.Rune('(')), &expr, tok(terminal.Rune(')'))).Bind(interpreter.Select(1)),
	))
	term = combinator.Memoize(combinator.Any(
		combinator.SeqOf(&term, tok(mulop), &factor).Bind(bin),
		&factor,
	))
	expr = combinator.Memoize(combinator.Any(
		combinator.SeqOf(&expr, tok(addop), &term).Bind(bin),
		&term,
	))
	if rootStyle == 1 {
		return combinator.SeqOf(&expr, text.Trim(parser.End())).Bind(interpreter.Select(0))
	}
	return combinator.Sentence(text.RightTrim(&expr, text.WsSpacesNl))
}

// ArithParserSplit is the same language with one left-recursive alternative PER OPERATOR
// (expr -> expr '+' term | expr '-' term | term, term -> term '*' factor | term '/' factor | factor):
// two alternatives of one rule start with the rule itself.
func ArithParserSplit() parsley.Parser {
	bin := ast.InterpreterFunc(func(userCtx interface{}, node parsley.NonTerminalNode) (interface{}, parsley.Error) {
		ch := node.Children()
		l, err := parsley.EvaluateNode(userCtx, ch[0])
		if err != nil {
			return nil, err
		}
		r, err := parsley.EvaluateNode(userCtx, ch[2])
		if err != nil {
			return nil, err
		}
		a, b := l.(int64), r.(int64)
		switch ch[1].Token() {
		case "+":
			return a + b, nil
		case "-":
			return a - b, nil
		case "*":
			return a * b, nil
		}
		if b == 0 {
			return nil, parsley.NewErrorf(ch[1].Pos(), "division by zero")
		}
		return a / b, nil
	})
	tok := func(p parsley.Parser) parsley.Parser { return text.LeftTrim(p, text.WsSpacesNl) }
	var expr, term, factor parser.Func
	factor = combinator.Memoize(combinator.Any(
		tok(terminal.Integer(nil)),
		combinator.SeqOf(tok(terminal.Rune('(')), &expr, tok(terminal.Rune(')'))).Bind(interpreter.Select(1)),
	))
	term = combinator.Memoize(combinator.Any(
		combinator.SeqOf(&term, tok(terminal.Rune('*')), &factor).Bind(bin),
		combinator.SeqOf(&term, tok(terminal.Rune('/')), &factor).Bind(bin),
		&factor,
	))
	expr = combinator.Memoize(combinator.Any(
		combinator.SeqOf(&expr, tok(terminal.Rune('+')), &term).Bind(bin),
		combinator.SeqOf(&expr, tok(terminal.Rune('-')), &term).Bind(bin),
		&term,
	))
	return combinator.Sentence(text.RightTrim(&expr, text.WsSpacesNl))
}

// ---- reference: lexer + recursive descent with left-associative folding

type arithKind int

const (
	arithValue arithKind = iota
	arithDivZero
	arithIllFormed
	arithUnspecified
)

type arithRef struct {
	s   []byte
	i   int
	bad bool // ill-formed
	dz  int  // offset of the first division by zero in evaluation order (-1 none)
}

func (r *arithRef) ws() {
	for r.i < len(r.s) && (r.s[r.i] == ' ' || r.s[r.i] == '\n' || r.s[r.i] == '\t' || r.s[r.i] == '\f') {
		r.i++
	}
}

func (r *arithRef) factor() int64 {
	r.ws()
	if r.bad || r.i >= len(r.s) {
		r.bad = true
		return 0
	}
	if r.s[r.i] == '(' {
		r.i++
		v := r.expr()
		r.ws()
		if r.bad || r.i >= len(r.s) || r.s[r.i] != ')' {
			r.bad = true
			return 0
		}
		r.i++
		return v
	}
	j := r.i
	if r.s[j] == '+' || r.s[j] == '-' {
		j++
	}
	k := j
	for k < len(r.s) && isDigit(r.s[k]) {
		k++
	}
	if k == j {
		r.bad = true
		return 0
	}
	// a literal with a leading zero is read as the single digit 0 (octal syntax is judged in C08; such inputs are classified unspecified before we get here)
	v, err := strconv.ParseInt(string(r.s[r.i:k]), 10, 64)
	if err != nil {
		r.bad = true
		return 0
	}
	r.i = k
	return v
}

func (r *arithRef) term() int64 {
	v := r.factor()
	for !r.bad {
		r.ws()
		if r.i >= len(r.s) || (r.s[r.i] != '*' && r.s[r.i] != '/') {
			break
		}
		op, at := r.s[r.i], r.i
		r.i++
		w := r.factor()
		if r.bad {
			break
		}
		if op == '*' {
			v *= w
		} else if w == 0 {
			if r.dz < 0 {
				r.dz = at
			}
			// keep going so that ill-formedness further right is still found; value irrelevant from here
		} else {
			v /= w
		}
	}
	return v
}

func (r *arithRef) expr() int64 {
	v := r.term()
	for !r.bad {
		r.ws()
		if r.i >= len(r.s) || (r.s[r.i] != '+' && r.s[r.i] != '-') {
			break
		}
		op := r.s[r.i]
		r.i++
		w := r.term()
		if r.bad {
			break
		}
		if op == '+' {
			v += w
		} else {
			v -= w
		}
	}
	return v
}

// classify returns the kind, the value and, for division by zero, the operator offset.
func arithClassify(s string) (arithKind, int64, int) {
	b := []byte(s)
	// unspecified: a digit run of length > 1 that starts with 0
	for i := 0; i < len(b); i++ {
		if isDigit(b[i]) && (i == 0 || !isDigit(b[i-1])) {
			j := i
			for j < len(b) && isDigit(b[j]) {
				j++
			}
			if j-i > 1 && b[i] == '0' {
				return arithUnspecified, 0, 0
			}
			i = j - 1
		}
	}
	r := &arithRef{s: b, dz: -1}
	v := r.expr()
	r.ws()
	if r.bad || r.i != len(b) {
		return arithIllFormed, 0, 0
	}
	if r.dz >= 0 {
		return arithDivZero, 0, r.dz
	}
	return arithValue, v, 0
}

type c05Case struct {
	Input     string `json:"input"`
	Placement int    `json:"file_placement,omitempty"`
	// History: the inputs evaluated before with the SAME parser objects (a parser is built once and reused; the two
	// objects are renewed every c05Renew inputs so that the state they may keep between parses stays replayable)
	History []string `json:"inputs_evaluated_before_with_these_parser_objects,omitempty"`
}

var arithRoot = ArithParser()
var c05Hist []string

const c05Renew = 16

var arithEndRoot = ArithParserExplicitEnd()

func c05RenewParsers() {
	arithRoot, arithSplitRoot, arithEndRoot, c05Hist = ArithParser(), ArithParserSplit(), ArithParserExplicitEnd(), nil
}

// arithSplitRoot: same language, one left-recursive alternative per operator, and the root wrapped in text.Trim the way
// examples/json does it (RightTrim then sees an alternative LIST whose first alternative is not the longest)
var arithSplitRoot = func() parsley.Parser { return ArithParserSplit() }()

// c05Placement: index into placements for the main evaluation of c05One (0: the file alone)
var c05Placement = 0

// at most c05DiskBudget inputs per worker process take the trip over the disk
var c05DiskInputs = 0

const c05DiskBudget = 1000

func c05One(res *explore.Result, s string, verbose bool) arithKind {
	kind, want, dzAt := arithClassify(s)
	fs, _, r, _ := place(placements[c05Placement], "f", []byte(s))
	ctx := parsley.NewContext(fs, r)
	var val interface{}
	var err error
	if len(c05Hist) >= c05Renew {
		c05RenewParsers()
	}
	cs := c05Case{strconv.Quote(s), c05Placement, append([]string{}, c05Hist...)}
	c05Hist = append(c05Hist, strconv.Quote(s))
	res.Add("transitions", 1)
	if pm := guard(func() { val, err = parsley.Evaluate(ctx, arithRoot) }); pm != "" {
		res.Violate("panic", fmt.Sprintf("Evaluate(%s) panicked: %s", q(s), pm), cs)
		return kind
	}
	res.Add("library_calls", int64(ctx.CallCount()))
	if len(s) <= c05SplitMaxLen {
		// the same input through the per-operator formulation of the grammar: same verdict, same value, same report
		fs2, _, r2, _ := place(placements[0], "f", []byte(s))
		var v2 interface{}
		var e2 error
		if pm := guard(func() { v2, e2 = parsley.Evaluate(parsley.NewContext(fs2, r2), arithSplitRoot) }); pm != "" {
			res.Violate("panic", fmt.Sprintf("per-operator grammar: Evaluate(%s) panicked: %s", q(s), pm), cs)
		} else if kind != arithUnspecified && ((e2 == nil) != (err == nil) || (e2 == nil && v2 != val) || (kind == arithDivZero && e2 != nil && err != nil && e2.Error() != err.Error())) {
			res.Violate("grammar-formulations-disagree", fmt.Sprintf("Evaluate(%s): one alternative per operator gives %v, %v; operators as one alternative gives %v, %v", q(s), v2, e2, val, err), cs)
		}
		res.Add("per_operator_grammar_runs", 1)
	}
	if len(s) <= 5 || (len(s) > 8 && len(s) <= c05SplitMaxLen) {
		// and through the formulation that spells the end of input out: SeqOf(expr, Trim(End())) (all strings of up to 5
		// symbols and the long families)
		fs3, _, r3, _ := place(placements[0], "f", []byte(s))
		var v3 interface{}
		var e3 error
		if pm := guard(func() { v3, e3 = parsley.Evaluate(parsley.NewContext(fs3, r3), arithEndRoot) }); pm != "" {
			res.Violate("panic", fmt.Sprintf("explicit-end grammar SeqOf(expr, Trim(End())): Evaluate(%s) panicked: %s", q(s), pm), cs)
		} else if kind != arithUnspecified && ((e3 == nil) != (err == nil) || (e3 == nil && v3 != val) || (kind == arithDivZero && e3 != nil && err != nil && e3.Error() != err.Error())) {
			res.Violate("grammar-formulations-disagree", fmt.Sprintf("Evaluate(%s): root SeqOf(expr, Trim(End())) gives %v, %v; root Sentence(RightTrim(expr)) gives %v, %v", q(s), v3, e3, val, err), cs)
		}
	}
	if kind == arithValue && err == nil && strings.Contains(s, "\n") && c05Placement == 0 && c05DiskInputs < c05DiskBudget {
		// the same expression saved with Windows line endings and loaded with text.ReadFile: same value
		c05DiskInputs++
		_, f4, r4, _ := place(placementFromDisk, "f", []byte(strings.ReplaceAll(s, "\n", "\r\n")))
		var v4 interface{}
		var e4 error
		if pm := guard(func() { v4, e4 = parsley.Evaluate(parsley.NewContext(parsley.NewFileSet(f4), r4), arithRoot) }); pm != "" {
			res.Violate("panic", fmt.Sprintf("Evaluate(%s) with CRLF line endings from disk panicked: %s", q(s), pm), cs)
		} else if e4 != nil || v4 != val {
			res.Violate("crlf-file-from-disk-differs", fmt.Sprintf("Evaluate(%s) = %v; the same text with CRLF line endings loaded with text.ReadFile gives %v, %v", q(s), val, v4, e4), cs)
		}
		res.Add("crlf_inputs_from_disk", 1)
	}
	if verbose {
		res.Notes = append(res.Notes, fmt.Sprintf("input %s: reference kind=%d value=%d div0@%d; library value=%v err=%v", q(s), kind, want, dzAt, val, err))
	}
	if val != nil && err != nil {
		res.Violate("value-and-error", fmt.Sprintf("Evaluate(%s) returned value %v AND error %v", q(s), val, err), cs)
	}
	switch kind {
	case arithValue:
		if err != nil {
			res.Violate("rejects-well-formed", fmt.Sprintf("Evaluate(%s) = error %q, reference value %d", q(s), err.Error(), want), cs)
		} else if got, ok := val.(int64); !ok || got != want {
			res.Violate("wrong-value", fmt.Sprintf("Evaluate(%s) = %v, reference evaluator (left-associative, * / before + -) = %d", q(s), val, want), cs)
		}
	case arithDivZero:
		line, col := lineColOf([]byte(s), dzAt)
		wantText := fmt.Sprintf("division by zero at f:%d:%d", line, col)
		if err == nil || err.Error() != wantText {
			res.Violate("division-by-zero-report", fmt.Sprintf("Evaluate(%s) = %v, %v; expected error %q (operator at offset %d)", q(s), val, err, wantText, dzAt), cs)
		} else {
			// history: the same expression as SECOND file of a set whose first file was evaluated (and failed) just
			// before; then the first file once more. Every report must name its own file's line:column.
			// (file names a formatting shortcut would trip over)
			fa, fb := text.NewFile("%d.expr", []byte("2\n/0")), text.NewFile("100%", []byte(s))
			fs2 := parsley.NewFileSet(fa, fb)
			step := func(f *text.File, want string, what string) {
				var e2 error
				if pm := guard(func() { _, e2 = parsley.Evaluate(parsley.NewContext(fs2, text.NewReader(f)), arithRoot) }); pm != "" {
					res.Violate("panic", fmt.Sprintf("two-file history, %s: panic %s", what, pm), cs)
				} else if e2 == nil || e2.Error() != want {
					res.Violate("division-by-zero-report", fmt.Sprintf("file set [\"2\\n/0\", %s], %s: got %v, expected %q", q(s), what, e2, want), cs)
				}
			}
			step(fa, "division by zero at %d.expr:2:1", "first file evaluated first")
			step(fb, fmt.Sprintf("division by zero at 100%%:%d:%d", line, col), "second file evaluated after the first")
			step(fa, "division by zero at %d.expr:2:1", "first file evaluated again")
			res.Add("two_file_histories", 1)
		}
	case arithIllFormed:
		if err == nil {
			res.Violate("accepts-ill-formed", fmt.Sprintf("Evaluate(%s) = %v without an error; the expression is ill-formed", q(s), val), cs)
		}
	}
	return kind
}

// c05SplitMaxLen: inputs up to this length (and all family members below 80 bytes) also go through the per-operator grammar
var c05SplitMaxLen = 80

var c05Symbols = []string{"0", "1", "2", "9", "+", "-", "*", "/", "(", ")", " ", "\n"}

func c05MaxLen(tier string) int {
	if tier == "thorough" {
		return 7
	}
	return 6
}

// deterministic long families (not claimed exhaustive): chains and nestings up to ~300 bytes
func c05Families() []string {
	var out []string
	ops := []string{"+", "-", "*", "/"}
	var pats [][]string
	for _, a := range ops {
		pats = append(pats, []string{a})
		for _, b := range ops {
			pats = append(pats, []string{a, b})
			for _, c := range ops {
				pats = append(pats, []string{a, b, c})
			}
		}
	}
	nums := []string{"7", "2", "1", "3", "9", "0", "12", "5"}
	for _, p := range pats {
		for _, n := range []int{5, 20, 60, 100} {
			for _, sep := range []string{"", " ", "\n ", " \n"} {
				var sb strings.Builder
				for i := 0; i < n; i++ {
					if i > 0 {
						sb.WriteString(sep + p[(i-1)%len(p)] + sep)
					}
					sb.WriteString(nums[i%len(nums)])
				}
				if sb.Len() <= 320 {
					out = append(out, sb.String())
				}
			}
		}
	}
	for depth := 1; depth <= 60; depth += 7 {
		out = append(out, strings.Repeat("(", depth)+"1+2"+strings.Repeat(")", depth))
		out = append(out, strings.Repeat("( ", depth)+"8/2-1"+strings.Repeat(" )", depth)+"*3")
		out = append(out, strings.Repeat("(1-", depth)+"1"+strings.Repeat(")", depth))
		out = append(out, strings.Repeat("(", depth)+"1+2"+strings.Repeat(")", depth-1))            // unbalanced
		out = append(out, strings.Repeat("2*(", depth)+"4/(1-1)"+strings.Repeat(")", depth)+"\n+1") // division by zero deep inside
	}
	out = append(out, "1\n+\n2\n*\n3", "10/(5-5)", "1/0/0", "(1/0)+(2/0)", "2/(1-1)+3/0", "-3--3", "+1++1", "9223372036854775807+1", "-9223372036854775807-2", "-9223372036854775808", "(-9223372036854775808+1)/1-0", "7+-9223372036854775808/2", "9223372036854775807", "-9223372036854775808/-1", "0-9223372036854775807-1", "1\n\n\n/\n0")
	return out
}

func c05Run(env *explore.Env) *explore.Result {
	res := explore.NewResult()
	defer func() {
		if diskScratch != "" {
			os.Remove(diskScratch)
			diskScratch = ""
		}
	}()
	eachString(c05Symbols, c05MaxLen(env.Tier), func(idx int64, s string, _ []int) {
		if !env.Mine(idx) {
			return
		}
		kind := c05One(res, s, false)
		if len(s) <= 4 {
			// short inputs also as a later file of a set whose reader was created before the file was added (reports of
			// a division by zero go through the file set: name, line and column must still be this file's)
			for pi, pl := range placements {
				if pl.readerFirst || len(pl.following) > 0 {
					c05Placement = pi
					c05One(res, s, false)
				}
			}
			c05Placement = 0
		}
		res.Add("states", 1)
		res.Add("traces", 1)
		switch kind {
		case arithValue:
			res.Add("well_formed", 1)
			if strings.ContainsAny(s, "+-*/") && len(s) >= 3 {
				res.Add("nontrivial", 1)
			}
			if res.Counters["well_formed"]%4001 == 1 {
				res.Sample(fmt.Sprintf("%s evaluates like the reference", q(s)))
			}
		case arithDivZero:
			res.Add("division_by_zero", 1)
			res.Add("nontrivial", 1)
		case arithIllFormed:
			res.Add("ill_formed", 1)
		case arithUnspecified:
			res.Add("unspecified_leading_zero_literal", 1)
		}
	})
	// every byte value between two tokens: only space, tab, line feed and form feed are blanks
	for v := 0; v < 256; v++ {
		if !env.Mine(int64(v)) {
			continue
		}
		for _, s := range []string{"1 +" + string([]byte{byte(v)}) + "2", "8" + string([]byte{byte(v)}) + " / 2", "(1" + string([]byte{byte(v)}) + ")"} {
			c05One(res, s, false)
			res.Add("byte_sweep_inputs", 1)
		}
	}
	fam := c05Families()
	for i, s := range fam {
		if !env.Mine(int64(i)) {
			continue
		}
		c05One(res, s, false)
		res.Add("states", 1)
		res.Add("traces", 1)
		res.Add("long_family_members", 1)
		res.Max("max_family_length", int64(len(s)))
	}
	return res
}

func c05Replay(raw json.RawMessage) *explore.Result {
	res := explore.NewResult()
	var c c05Case
	if err := json.Unmarshal(raw, &c); err != nil {
		res.Notes = append(res.Notes, "bad case: "+err.Error())
		return res
	}
	s, err := strconv.Unquote(c.Input)
	if err != nil {
		res.Notes = append(res.Notes, "bad input")
		return res
	}
	if c.Placement > 0 && c.Placement < len(placements) {
		c05Placement = c.Placement
		defer func() { c05Placement = 0 }()
	}
	c05RenewParsers()
	for _, hq := range c.History {
		if h, err := strconv.Unquote(hq); err == nil {
			c05One(explore.NewResult(), h, false) // brings the parser objects into the recorded state; verdicts of these runs are not this case's
		}
	}
	c05One(res, s, true)
	return res
}

func init() {
	explore.Register(&explore.Check{
		ID:    "C05",
		Level: "model_checking",
		Rule: "every string of 0..N symbols over {0 1 2 9 + - * / ( ) space LF} evaluated by parsley.Evaluate with the classic memoized left-recursive expr/term/factor grammar (tokens left-trimmed, signed Integer literals) and classified by an independent lexer + recursive-descent evaluator: well-formed => same int64 value; division by zero => exact 'division by zero at f:line:col' of the first offending operator in evaluation order; ill-formed => error; never a panic; " +
			"plus deterministic long families (operator patterns of period <= 3 up to 100 operands, nesting to depth 57, whitespace/newlines between all tokens) up to ~320 bytes, which are listed but not claimed exhaustive; " +
			"state = one input string; transition = one Evaluate; non-trivial = a well-formed expression with at least one operator, or a division by zero",
		Assume: []string{"reference evaluator in mc/ix/c05.go; inputs containing a multi-digit literal with a leading zero are classified unspecified (octal reading is Integer's business, C08) and only checked for totality"},
		Run:    c05Run,
		Replay: c05Replay,
		Bounds: func(tier string) map[string]any {
			return map[string]any{"symbols": c05Symbols, "max_symbols": c05MaxLen(tier), "long_families": len(c05Families())}
		},
	})
}
