package ix

import (
	"github.com/opsidian/parsley/parsley"
	"github.com/opsidian/parsley/text"
)

// Corpus returns a workload corpus by name (used by the race pass of C14).
func Corpus(name string, max int) []string {
	var out []string
	switch name {
	case "arith":
		eachString(c05Symbols, max, func(_ int64, s string, _ []int) { out = append(out, s) })
		for i, s := range c05Families() {
			if i%25 == 0 {
				out = append(out, s)
			}
		}
	case "json":
		toks := append(append([]string{}, c16Tokens...), " ", "\n")
		eachString(toks, max, func(_ int64, s string, _ []int) { out = append(out, s) })
		out = append(out, c16Families()...)
	case "trim":
		menu := wsStrings(max)
		for _, g0 := range menu {
			for _, g1 := range menu {
				out = append(out, g0+"a"+g1+"b", "a"+g0+"b"+g1)
			}
		}
	}
	return out
}

// LitCorpus is one literal parser with its inputs.
type LitCorpus struct {
	Name   string
	P      parsley.Parser
	Inputs []string
}

// LiteralCorpus returns every literal parser configuration of C08 with all strings up to max symbols.
func LiteralCorpus(max int) []LitCorpus {
	var out []LitCorpus
	for i := range literalParsers {
		lp := &literalParsers[i]
		lc := LitCorpus{Name: lp.name, P: lp.p}
		eachString(lp.symbols, max, func(_ int64, s string, _ []int) { lc.Inputs = append(lc.Inputs, s) })
		if lp.family != nil {
			fam := lp.family()
			for j := 0; j < len(fam); j += 9 {
				lc.Inputs = append(lc.Inputs, fam[j])
			}
		}
		out = append(out, lc)
	}
	return out
}

// TrimCorpusParsers returns trimmed token sequence parsers covering every mode on both sides.
func TrimCorpusParsers() []parsley.Parser {
	var out []parsley.Parser
	for _, l := range allModes {
		for _, r := range []text.WsMode{text.WsSpacesNl, text.WsNone} {
			out = append(out, buildSeq([]wrapper{{hasL: true, hasR: true, l: l, r: r}, {hasL: true, l: r}}))
		}
	}
	return out
}
