package ix

import (
	"encoding/json"
	"fmt"
	"strings"

	"github.com/opsidian/parsley/ast"
	"github.com/opsidian/parsley/combinator"
	"github.com/opsidian/parsley/parser"
	"github.com/opsidian/parsley/parsley"
	"github.com/opsidian/parsley/text/terminal"

	"verif/mc/explore"
)

// C17 — work stays polynomial on unambiguous grammars. For every family and
// EVERY n in a range: CallCount(2n) <= 16 * CallCount(n) (n >= 8), the call count
// is identical on two fresh runs, and the parse succeeds with the expected value.

type c17Family struct {
	name  string
	build func() parsley.Parser
	input func(n int) string                // canonical input of "size" n (length grows linearly with n)
	check func(n int, v interface{}) string // "" if the value is as expected
}

var concatInterp = ast.InterpreterFunc(func(userCtx interface{}, node parsley.NonTerminalNode) (interface{}, parsley.Error) {
	var sb strings.Builder
	for _, c := range node.Children() {
		v, err := parsley.EvaluateNode(userCtx, c)
		if err != nil {
			continue // empty nodes
		}
		switch x := v.(type) {
		case rune:
			sb.WriteRune(x)
		case string:
			sb.WriteString(x)
		case int64:
			fmt.Fprint(&sb, x)
		}
	}
	return sb.String(), nil
})

func sameAsInput(input func(int) string) func(int, interface{}) string {
	return func(n int, v interface{}) string {
		want := input(n)
		switch x := v.(type) {
		case string:
			if x == want {
				return ""
			}
		case rune:
			if string(x) == want {
				return ""
			}
		}
		return fmt.Sprintf("value %v, expected the input %q spelled back", v, want)
	}
}

func c17Families() []c17Family {
	r := terminal.Rune
	seq := func(ps ...parsley.Parser) parsley.Parser { return combinator.SeqOf(ps...).Bind(concatInterp) }
	var fams []c17Family

	// P -> P b | a
	in1 := func(n int) string { return "a" + strings.Repeat("b", n-1) }
	fams = append(fams, c17Family{"direct left recursion P -> P b | a", func() parsley.Parser {
		var p parser.Func
		p = combinator.Memoize(combinator.Any(seq(&p, r('b')), r('a')))
		return combinator.Sentence(&p)
	}, in1, sameAsInput(in1)})

	// mutual: A -> B x | a ; B -> A y | b
	in2 := func(n int) string { return "a" + strings.Repeat("yx", n/2) }
	fams = append(fams, c17Family{"mutual left recursion A -> B x | a, B -> A y | b", func() parsley.Parser {
		var a, b parser.Func
		a = combinator.Memoize(combinator.Any(seq(&b, r('x')), r('a')))
		b = combinator.Memoize(combinator.Any(seq(&a, r('y')), r('b')))
		return combinator.Sentence(&a)
	}, in2, sameAsInput(in2)})

	// hidden: P -> eps P b | a
	fams = append(fams, c17Family{"hidden left recursion P -> eps P b | a", func() parsley.Parser {
		var p parser.Func
		p = combinator.Memoize(combinator.Any(seq(parser.Empty(), &p, r('b')), r('a')))
		return combinator.Sentence(&p)
	}, in1, sameAsInput(in1)})

	// hidden through an optional prefix, x-free inputs: P -> x? P b | a
	fams = append(fams, c17Family{"hidden left recursion P -> x? P b | a on x-free input", func() parsley.Parser {
		var p parser.Func
		p = combinator.Memoize(combinator.Any(seq(combinator.Optional(r('x')), &p, r('b')), r('a')))
		return combinator.Sentence(&p)
	}, in1, sameAsInput(in1)})

	// arithmetic (C05's grammar): left chains, mixed operators, nested parentheses
	arith := func() parsley.Parser { return ArithParser() }
	chain := func(ops string) func(n int) string {
		return func(n int) string {
			var sb strings.Builder
			for i := 0; i < (n+1)/2; i++ {
				if i > 0 {
					sb.WriteByte(ops[(i-1)%len(ops)])
				}
				sb.WriteByte("1234567"[i%7])
			}
			return sb.String()
		}
	}
	refValue := func(input func(int) string) func(int, interface{}) string {
		return func(n int, v interface{}) string {
			kind, want, _ := arithClassify(input(n))
			if kind != arithValue {
				return "harness: family member is not a well-formed expression"
			}
			if got, ok := v.(int64); !ok || got != want {
				return fmt.Sprintf("value %v, reference %d", v, want)
			}
			return ""
		}
	}
	for _, ops := range []string{"+", "-*", "+*-"} {
		in := chain(ops)
		fams = append(fams, c17Family{"arithmetic, operator pattern " + ops, arith, in, refValue(in)})
	}
	inPar := func(n int) string { d := n / 2; return strings.Repeat("(", d) + "1" + strings.Repeat(")", d) }
	fams = append(fams, c17Family{"arithmetic, nested parentheses", arith, inPar, refValue(inPar)})

	// nested brackets S -> ( S ) S | eps
	brackets := func() parsley.Parser {
		var s parser.Func
		s = combinator.Memoize(combinator.Any(seq(r('('), &s, r(')'), &s), parser.Empty()))
		return combinator.Sentence(&s)
	}
	inNest := func(n int) string { return strings.Repeat("(", n/2) + strings.Repeat(")", n/2) }
	inFlat := func(n int) string { return strings.Repeat("()", n/2) }
	anyValue := func(int, interface{}) string { return "" }
	fams = append(fams, c17Family{"brackets S -> ( S ) S | eps, nested input", brackets, inNest, anyValue})
	fams = append(fams, c17Family{"brackets S -> ( S ) S | eps, flat input", brackets, inFlat, anyValue})

	// separated list
	inList := func(n int) string { return strings.TrimSuffix(strings.Repeat("1,", (n+1)/2), ",") }
	fams = append(fams, c17Family{"SepBy1(integer, ',')", func() parsley.Parser {
		return combinator.Sentence(combinator.SepBy1(terminal.Integer(nil), r(',')).Bind(concatInterp))
	}, inList, anyValue})
	return fams
}

type c17Case struct {
	Family int `json:"family"`
	N      int `json:"n"`
}

func c17Count(f *c17Family, p parsley.Parser, n int) (calls int, val interface{}, err error, pm string) {
	in := f.input(n)
	fs, _, r, _ := place(placements[0], "f", []byte(in))
	ctx := parsley.NewContext(fs, r)
	pm = guard(func() { val, err = parsley.Evaluate(ctx, p) })
	return ctx.CallCount(), val, err, pm
}

func c17One(res *explore.Result, fi int, n int, verbose bool) {
	fams := c17Families()
	f := &fams[fi]
	p := f.build()
	cs := c17Case{fi, n}
	where := fmt.Sprintf("family %q, n=%d (input length %d)", f.name, n, len(f.input(n)))
	c1, v, err, pm := c17Count(f, p, n)
	res.Add("states", 1)
	res.Add("transitions", int64(c1))
	if pm != "" {
		res.Violate("panic", where+": "+pm, cs)
		return
	}
	if err != nil {
		res.Violate("family-input-rejected", fmt.Sprintf("%s: the canonical input %q is rejected: %v", where, f.input(n), err), cs)
		return
	}
	if why := f.check(n, v); why != "" {
		res.Violate("wrong-value", where+": "+why, cs)
		return
	}
	// determinism on a fresh context AND a freshly built grammar
	c1b, _, _, _ := c17Count(f, f.build(), n)
	if c1b != c1 {
		res.Violate("call-count-not-deterministic", fmt.Sprintf("%s: call count %d on the first run, %d on a fresh run", where, c1, c1b), cs)
	}
	c2, _, err2, pm2 := c17Count(f, p, 2*n)
	res.Add("transitions", int64(c2))
	if pm2 != "" || err2 != nil {
		res.Violate("family-input-rejected", fmt.Sprintf("%s: size 2n fails: %v %s", where, err2, pm2), cs)
		return
	}
	ratio := float64(c2) / float64(c1)
	res.Add("traces", 1)
	res.Add("nontrivial", 1)
	res.Max("max_calls_single_parse", int64(c2))
	res.Outcome(fmt.Sprintf("%s: ratio %.0f", f.name, ratio))
	if verbose || n == 8 || n == 32 || n%50 == 0 {
		res.Sample(fmt.Sprintf("%s: calls(n)=%d calls(2n)=%d ratio %.2f", where, c1, c2, ratio))
	}
	if n >= 8 && c2 > 16*c1 {
		res.Violate("superpolynomial-growth", fmt.Sprintf("%s: calls(n)=%d, calls(2n)=%d: doubling the input multiplied the work by %.1f > 16", where, c1, c2, ratio), cs)
	}
}

func c17MaxN(tier string) int {
	if tier == "thorough" {
		return 400
	}
	return 150
}

func c17Run(env *explore.Env) *explore.Result {
	res := explore.NewResult()
	nf := len(c17Families())
	var idx int64
	for fi := 0; fi < nf; fi++ {
		for n := 4; n <= c17MaxN(env.Tier); n++ {
			if env.Mine(idx) {
				c17One(res, fi, n, false)
			}
			idx++
		}
	}
	return res
}

func c17Replay(raw json.RawMessage) *explore.Result {
	res := explore.NewResult()
	var c c17Case
	if err := json.Unmarshal(raw, &c); err != nil || c.Family < 0 || c.Family >= len(c17Families()) {
		res.Notes = append(res.Notes, "bad case")
		return res
	}
	c17One(res, c.Family, c.N, true)
	for _, s := range res.Samples {
		res.Notes = append(res.Notes, fmt.Sprint(s))
	}
	return res
}

func init() {
	explore.Register(&explore.Check{
		ID:    "C17",
		Level: "exploration",
		Rule: "12 unambiguous grammar families (direct, mutual and hidden left recursion, expr/term/factor arithmetic with three operator patterns and nested parentheses, nested brackets on nested and flat inputs, separated lists) x EVERY size n from 4 to the bound: the canonical inputs of size n and 2n are parsed; calls(2n) <= 16*calls(n) for n >= 8, identical call count on a freshly built grammar, parse succeeds with the expected value; " +
			"evaluation = one (family, n) pair; every evaluated pair is non-trivial (a successful parse of a left-recursive or nested input); a bounded statement about these families and lengths, not a proof of a polynomial bound",
		Assume: []string{"Context.CallCount is the work measure the property names; ambiguous inputs (e.g. x-prefixed inputs of P -> x? P b | a) are outside the property and excluded"},
		Shards: func(string) int { return 48 },
		Run:    c17Run,
		Replay: c17Replay,
		Bounds: func(tier string) map[string]any {
			return map[string]any{"families": len(c17Families()), "n_from": 4, "n_to": c17MaxN(tier), "largest_input_bytes_about": 2 * c17MaxN(tier)}
		},
	})
}
