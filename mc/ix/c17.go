package ix

import (
	"bytes"
	"encoding/json"
	"fmt"
	"github.com/opsidian/parsley/data"
	"github.com/opsidian/parsley/text"
	"os"
	"os/exec"
	"strings"

	"github.com/opsidian/parsley/ast"
	"github.com/opsidian/parsley/combinator"
	"github.com/opsidian/parsley/parser"
	"github.com/opsidian/parsley/parsley"
	"github.com/opsidian/parsley/text/terminal"

	"verif/mc/explore"
	"verif/mc/hook"
)

// C17 — work stays polynomial on unambiguous grammars. For every family and
// EVERY n in a range: CallCount(2n) <= 16 * CallCount(n) (n >= 8), the call count
// is identical on two fresh runs, and the parse succeeds with the expected value.

type c17Family struct {
	scale  float64 // fraction of the tier's size range used for this (expensive) family; 0 = all of it
	reject bool    // the canonical inputs are NOT sentences: the parse must fail, the work bound is judged all the same
	name   string
	build  func() parsley.Parser
	input  func(n int) string                // canonical input of "size" n (length grows linearly with n)
	check  func(n int, v interface{}) string // "" if the value is as expected
}

var concatInterp = ast.InterpreterFunc(func(userCtx interface{}, node parsley.NonTerminalNode) (interface{}, parsley.Error) {
	var sb strings.Builder
	for _, c := range node.Children() {
		v, err := parsley.EvaluateNode(userCtx, c)
		if err != nil {
			continue // empty nodes
		}
		switch x := v.(type) {
		case rune:
			sb.WriteRune(x)
		case string:
			sb.WriteString(x)
		case int64:
			fmt.Fprint(&sb, x)
		}
	}
	return sb.String(), nil
})

func sameAsInput(input func(int) string) func(int, interface{}) string {
	return func(n int, v interface{}) string {
		want := input(n)
		switch x := v.(type) {
		case string:
			if x == want {
				return ""
			}
		case rune:
			if string(x) == want {
				return ""
			}
		}
		return fmt.Sprintf("value %v, expected the input %q spelled back", v, want)
	}
}

func c17Families() []c17Family {
	r := terminal.Rune
	seq := func(ps ...parsley.Parser) parsley.Parser { return combinator.SeqOf(ps...).Bind(concatInterp) }
	var fams []c17Family
	anyValue := func(int, interface{}) string { return "" }

	// P -> P b | a
	in1 := func(n int) string { return "a" + strings.Repeat("b", n-1) }
	fams = append(fams, c17Family{name: "direct left recursion P -> P b | a", build: func() parsley.Parser {
		var p parser.Func
		p = combinator.Memoize(combinator.Any(seq(&p, r('b')), r('a')))
		return combinator.Sentence(&p)
	}, input: in1, check: sameAsInput(in1)})

	// mutual: A -> B x | a ; B -> A y | b
	in2 := func(n int) string { return "a" + strings.Repeat("yx", n/2) }
	fams = append(fams, c17Family{name: "mutual left recursion A -> B x | a, B -> A y | b", build: func() parsley.Parser {
		var a, b parser.Func
		a = combinator.Memoize(combinator.Any(seq(&b, r('x')), r('a')))
		b = combinator.Memoize(combinator.Any(seq(&a, r('y')), r('b')))
		return combinator.Sentence(&a)
	}, input: in2, check: sameAsInput(in2)})

	// hidden: P -> eps P b | a
	fams = append(fams, c17Family{name: "hidden left recursion P -> eps P b | a", build: func() parsley.Parser {
		var p parser.Func
		p = combinator.Memoize(combinator.Any(seq(parser.Empty(), &p, r('b')), r('a')))
		return combinator.Sentence(&p)
	}, input: in1, check: sameAsInput(in1)})

	// hidden through an optional prefix, x-free inputs: P -> x? P b | a
	fams = append(fams, c17Family{name: "hidden left recursion P -> x? P b | a on x-free input", build: func() parsley.Parser {
		var p parser.Func
		p = combinator.Memoize(combinator.Any(seq(combinator.Optional(r('x')), &p, r('b')), r('a')))
		return combinator.Sentence(&p)
	}, input: in1, check: sameAsInput(in1)})

	// arithmetic (C05's grammar): left chains, mixed operators, nested parentheses
	arith := func() parsley.Parser { return ArithParser() }
	chain := func(ops string) func(n int) string {
		return func(n int) string {
			var sb strings.Builder
			for i := 0; i < (n+1)/2; i++ {
				if i > 0 {
					sb.WriteByte(ops[(i-1)%len(ops)])
				}
				sb.WriteByte("1234567"[i%7])
			}
			return sb.String()
		}
	}
	refValue := func(input func(int) string) func(int, interface{}) string {
		return func(n int, v interface{}) string {
			kind, want, _ := arithClassify(input(n))
			if kind != arithValue {
				return "harness: family member is not a well-formed expression"
			}
			if got, ok := v.(int64); !ok || got != want {
				return fmt.Sprintf("value %v, reference %d", v, want)
			}
			return ""
		}
	}
	for _, ops := range []string{"+", "-*", "+*-"} {
		in := chain(ops)
		fams = append(fams, c17Family{name: "arithmetic, operator pattern " + ops, build: arith, input: in, check: refValue(in)})
	}
	// the same language with one left-recursive alternative per operator (two alternatives of a rule start with the rule)
	split := func() parsley.Parser { return ArithParserSplit() }
	for _, ops := range []string{"+-", "*/+"} {
		in := chain(ops)
		fams = append(fams, c17Family{name: "arithmetic with one alternative per operator, operator pattern " + ops, build: split, input: in, check: refValue(in)})
	}
	inPar := func(n int) string { d := n / 2; return strings.Repeat("(", d) + "1" + strings.Repeat(")", d) }
	fams = append(fams, c17Family{scale: 0.7, name: "arithmetic, nested parentheses", build: arith, input: inPar, check: refValue(inPar)})

	// nested brackets S -> ( S ) S | eps
	brackets := func() parsley.Parser {
		var s parser.Func
		s = combinator.Memoize(combinator.Any(seq(r('('), &s, r(')'), &s), parser.Empty()))
		return combinator.Sentence(&s)
	}
	inNest := func(n int) string { return strings.Repeat("(", n/2) + strings.Repeat(")", n/2) }
	inFlat := func(n int) string { return strings.Repeat("()", n/2) }
	fams = append(fams, c17Family{name: "brackets S -> ( S ) S | eps, nested input", build: brackets, input: inNest, check: anyValue})
	fams = append(fams, c17Family{name: "brackets S -> ( S ) S | eps, flat input", build: brackets, input: inFlat, check: anyValue})

	// separated list
	inList := func(n int) string { return strings.TrimSuffix(strings.Repeat("1,", (n+1)/2), ",") }
	fams = append(fams, c17Family{name: "SepBy1(integer, ',')", build: func() parsley.Parser {
		return combinator.Sentence(combinator.SepBy1(terminal.Integer(nil), r(',')).Bind(concatInterp))
	}, input: inList, check: anyValue})
	// precedence ladder: six nested left-recursive levels  | & = + * ^  over integers and parentheses
	ladder := func() parsley.Parser {
		ops := []rune{'|', '&', '=', '+', '*', '^'}
		var top parser.Func
		atom := combinator.Memoize(combinator.Any(terminal.Integer(nil), seq(r('('), &top, r(')'))))
		levels := make([]parser.Func, len(ops)+1)
		levels[len(ops)] = atom
		for i := len(ops) - 1; i >= 0; i-- {
			i := i
			levels[i] = combinator.Memoize(combinator.Any(seq(&levels[i], r(ops[i]), &levels[i+1]), &levels[i+1]))
		}
		top = levels[0]
		return combinator.Sentence(&top)
	}
	inLadderPar := func(n int) string { d := n / 2; return strings.Repeat("(", d) + "1" + strings.Repeat(")", d) }
	inLadderChain := func(n int) string {
		var sb strings.Builder
		for i := 0; i < (n+1)/2; i++ {
			if i > 0 {
				sb.WriteByte("|&=+*^"[(i-1)%6])
			}
			sb.WriteByte('1')
		}
		return sb.String()
	}
	// the same kind of ladder with TEN levels, rules created TOP-DOWN (the ancestors get the smaller cache indexes; the
	// six-level ladder above is created bottom-up): what is stored about enclosing rules must not depend on index order
	deepLadder := func() parsley.Parser {
		ops := []rune("abcdefghij")
		levels := make([]parser.Func, len(ops)+1)
		for i := 0; i < len(ops); i++ {
			i := i
			levels[i] = combinator.Memoize(combinator.Any(seq(&levels[i], r(ops[i]), &levels[i+1]), &levels[i+1]))
		}
		levels[len(ops)] = combinator.Memoize(combinator.Any(terminal.Integer(nil), seq(r('('), &levels[0], r(')'))))
		return combinator.Sentence(&levels[0])
	}
	inDeepLadder := func(n int) string {
		var sb strings.Builder
		sb.WriteByte('1')
		for k := 0; k < n/2; k++ {
			sb.WriteByte("abcdefghij"[k%10])
			sb.WriteByte('1')
		}
		return sb.String()
	}
	fams = append(fams, c17Family{scale: 0.5, name: "precedence ladder of 10 left-recursive levels created top-down, operator chain", build: deepLadder, input: inDeepLadder, check: anyValue})
	fams = append(fams, c17Family{scale: 0.4, name: "precedence ladder of 6 left-recursive levels, nested parentheses", build: ladder, input: inLadderPar, check: anyValue})
	fams = append(fams, c17Family{name: "precedence ladder of 6 left-recursive levels, operator chain", build: ladder, input: inLadderChain, check: anyValue})

	// brackets whose alternatives share a prefix: S -> A | B, A -> (A) | (A] | a, B -> (B) | (B] | b  (valid B text)
	shared := func() parsley.Parser {
		var a, b parser.Func
		a = combinator.Memoize(combinator.Any(seq(r('('), &a, r(')')), seq(r('('), &a, r(']')), r('a')))
		b = combinator.Memoize(combinator.Any(seq(r('('), &b, r(')')), seq(r('('), &b, r(']')), r('b')))
		return combinator.Sentence(combinator.Any(&a, &b))
	}
	inShared := func(n int) string {
		d := n / 2
		var sb strings.Builder
		sb.WriteString(strings.Repeat("(", d) + "b")
		for i := 0; i < d; i++ {
			sb.WriteByte(")]"[i%2])
		}
		return sb.String()
	}
	fams = append(fams, c17Family{name: "brackets with shared prefixes S -> A | B, X -> (X) | (X] | x, valid B text", build: shared, input: inShared, check: anyValue})

	// hidden left recursion whose optional prefix MATCHES: L -> L ',' X | X, X -> '-'? X '!' | 'd' on "-d!,-d!,..."
	// (each item has exactly one derivation)
	hiddenList := func() parsley.Parser {
		var l, x parser.Func
		x = combinator.Memoize(combinator.Any(seq(combinator.Optional(r('-')), &x, r('!')), r('d')))
		l = combinator.Memoize(combinator.Any(seq(&l, r(','), &x), &x))
		return combinator.Sentence(&l)
	}
	inHiddenList := func(n int) string {
		k := n / 4
		if k < 1 {
			k = 1
		}
		return strings.TrimSuffix(strings.Repeat("-d!,", k), ",")
	}
	fams = append(fams, c17Family{name: "list of hidden-left-recursive items whose optional prefix matches", build: hiddenList, input: inHiddenList, check: anyValue})

	// several optional parsers producing the SAME empty match at one position: the library reports one empty match per
	// position (ast.AppendNode / NodeList.Append), so every input below has exactly one parse tree set of size one
	optSign := func() parsley.Parser {
		sign := combinator.Any(combinator.Optional(r('+')), combinator.Optional(r('-')))
		return combinator.Sentence(combinator.SepBy1(seq(sign, r('1')), r(',')).Bind(concatInterp))
	}
	inOptSign := func(n int) string { return "1" + strings.Repeat(",1", n/2) }
	fams = append(fams, c17Family{name: "separated list of items with an optional sign written as Any(Optional(+), Optional(-)), sign absent", build: optSign, input: inOptSign, check: anyValue})
	optPrefix := func() parsley.Parser {
		var stmt parser.Func
		prefix := combinator.Optional(combinator.Optional(r('x')))
		stmt = combinator.Memoize(combinator.Any(seq(prefix, &stmt, r('c')), r('d')))
		return combinator.Sentence(&stmt)
	}
	inOptPrefix := func(n int) string { return "d" + strings.Repeat("c", n) }
	fams = append(fams, c17Family{name: "hidden left recursion behind an optional prefix whose content is itself optional, prefix absent", build: optPrefix, input: inOptPrefix, check: anyValue})

	// rejected inputs: the work bound holds for failing parses as well
	wrongFirst := func(in func(int) string) func(int) string { return func(n int) string { return "x" + in(n) } }
	truncated := func(in func(int) string) func(int) string {
		return func(n int) string { s := in(n); return s[:len(s)-1] + "+" }
	}
	// a grammar OBJECT with a past: postfix -> primary '!' / primary '?' / primary (ordered Choice, primary memoized)
	// that has already parsed 600 inputs in which the first alternative always succeeds (the cache of primary is filled
	// and never read); the measured inputs have no suffix, so every alternative asks primary again. What a parser object
	// has seen before must not change the work it does now.
	usedPostfix := func() parsley.Parser {
		var postfix parser.Func
		primary := combinator.Memoize(combinator.Choice(seq(r('('), &postfix, r(')')), r('a')))
		postfix = combinator.Choice(seq(primary, r('!')), seq(primary, r('?')), primary)
		root := combinator.Sentence(&postfix)
		warm := "a!"
		for i := 0; i < 8; i++ {
			warm = "(" + warm + ")!"
		}
		for i := 0; i < 600; i++ {
			fs, _, rd, _ := place(placements[0], "f", []byte(warm))
			if _, err := parsley.Evaluate(parsley.NewContext(fs, rd), root); err != nil {
				panic("C17 harness: warm-up input rejected: " + err.Error())
			}
		}
		return root
	}
	inNested := func(n int) string {
		d := n / 2
		return strings.Repeat("(", d) + "a" + strings.Repeat(")", d)
	}
	fams = append(fams, c17Family{scale: 0.3, name: "postfix operators behind an ordered Choice over a memoized operand, grammar object with 600 earlier parses", build: usedPostfix, input: inNested, check: anyValue})
	// a keyword terminal that registers its word in the context every time it is tried (the registry is per context and
	// registering is idempotent): factor -> neg ( expr ) | int | ( expr ), nested input neg(1+(neg(1+( ... ))))
	kwArith := func() parsley.Parser {
		kw := func(word string) parsley.Parser {
			w := terminal.Word(nil, word, word)
			return parser.Func(func(ctx *parsley.Context, l data.IntMap, pos parsley.Pos) (parsley.Node, data.IntSet, parsley.Error) {
				ctx.RegisterKeywords(word)
				return w.Parse(ctx, l, pos)
			})
		}
		var expr, term, factor parser.Func
		factor = combinator.Memoize(combinator.Any(
			seq(kw("neg"), r('('), &expr, r(')')),
			terminal.Integer(nil),
			seq(r('('), &expr, r(')')),
		))
		term = combinator.Memoize(combinator.Any(seq(&term, r('*'), &factor), &factor))
		expr = combinator.Memoize(combinator.Any(seq(&expr, r('+'), &term), &term))
		return combinator.Sentence(&expr)
	}
	inKwArith := func(n int) string {
		d := n / 9
		if d < 1 {
			d = 1
		}
		return strings.Repeat("neg(1+(", d) + "2" + strings.Repeat("))", d)
	}
	fams = append(fams, c17Family{scale: 0.6, name: "arithmetic with a keyword terminal that registers its word in the context on every attempt, nested", build: kwArith, input: inKwArith, check: anyValue})
	// inputs that END where an operand is still expected: the left-recursive rules are asked at the end-of-input position
	lastOperandMissing := func(in func(int) string) func(int) string {
		return func(n int) string { s := in(n); return s[:len(s)-1] }
	}
	fams = append(fams, c17Family{reject: true, name: "arithmetic, operator pattern +* with its last operand missing (rejected at end of input)", build: arith, input: lastOperandMissing(chain("+*")), check: anyValue})
	fams = append(fams, c17Family{reject: true, name: "precedence ladder, chain with its last operand missing (rejected at end of input)", build: ladder, input: lastOperandMissing(inLadderChain), check: anyValue})
	// a list of statements, each closed by ';': after the last one the repetition tries another statement at the end of
	// input, where the left-recursive expression rules must fail in bounded work
	stmts := func() parsley.Parser {
		var e parser.Func
		e = combinator.Memoize(combinator.Any(seq(&e, r('+'), terminal.Integer(nil)), terminal.Integer(nil)))
		return combinator.Sentence(combinator.Many(seq(&e, r(';'))).Bind(concatInterp))
	}
	inStmts := func(n int) string { return strings.Repeat("1+2;", (n+3)/4) }
	fams = append(fams, c17Family{name: "statements E; E; ... with a left-recursive E (the repetition asks for another statement at end of input)", build: stmts, input: inStmts, check: anyValue})
	fams = append(fams, c17Family{reject: true, name: "arithmetic, operator pattern +- with a wrong first byte (rejected)", build: arith, input: wrongFirst(chain("+-")), check: anyValue})
	fams = append(fams, c17Family{reject: true, name: "arithmetic, operator pattern +* ending in a dangling operator (rejected)", build: arith, input: truncated(chain("+*")), check: anyValue})
	fams = append(fams, c17Family{reject: true, name: "precedence ladder, chain with a wrong first byte (rejected)", build: ladder, input: wrongFirst(inLadderChain), check: anyValue})
	fams = append(fams, c17Family{reject: true, name: "brackets with shared prefixes, last closer missing (rejected)", build: shared, input: func(n int) string { s := inShared(n); return s[:len(s)-1] }, check: anyValue})
	fams = append(fams, c17Family{reject: true, name: "direct left recursion P -> P b | a with a trailing a (rejected)", build: fams[0].build, input: func(n int) string { return in1(n) + "a" }, check: anyValue})
	return fams
}

type c17Case struct {
	Family int `json:"family"`
	N      int `json:"n"`
	// History: the (family, n) steps this process ran before, in order. A replay runs them first: work that depends
	// on what the process did earlier (a package-level pool or cache in the library) is part of the case.
	History [][2]int `json:"steps_run_before_in_this_process,omitempty"`
}

var c17Hist [][2]int

// c17AbsoluteCap bounds a single parse; the largest parse of the families on the unchanged tree needs < 15M calls.
const c17AbsoluteCap = 60000000

// c17Count parses the family input of size n under a call budget (0 = absolute cap only). capped reports
// that the budget was exhausted and the parse aborted.
func c17Count(f *c17Family, p parsley.Parser, n int, budget int64) (calls int, val interface{}, err error, pm string, capped bool) {
	in := f.input(n)
	fs, _, r, _ := place(placements[0], "f", []byte(in))
	ctx := parsley.NewContext(fs, r)
	if budget <= 0 || budget > c17AbsoluteCap {
		budget = c17AbsoluteCap
	}
	hook.SetBudget(budget)
	defer hook.SetBudget(0)
	func() {
		defer func() {
			if rec := recover(); rec != nil {
				if _, ok := rec.(hook.BudgetExceeded); ok {
					capped = true
					return
				}
				pm = fmt.Sprint(rec)
			}
		}()
		val, err = parsley.Evaluate(ctx, p)
	}()
	return ctx.CallCount(), val, err, pm, capped
}

// c17One judges one (family, n). known maps sizes already parsed in this family to their call counts and is
// used to cap the work of a parse at 16x the count of half its size, so that a regression which makes the work
// explode is reported after bounded effort instead of after an exponential run.
func c17One(res *explore.Result, fams []c17Family, fi int, n int, known map[int]int, verbose bool) (violated bool) {
	f := &fams[fi]
	p := f.build()
	cs := c17Case{fi, n, append([][2]int{}, c17Hist...)}
	c17Hist = append(c17Hist, [2]int{fi, n})
	where := fmt.Sprintf("family %q, n=%d (input length %d)", f.name, n, len(f.input(n)))
	budgetFor := func(size int) int64 {
		if size >= 16 && size%2 == 0 {
			if h, ok := known[size/2]; ok {
				return 16*int64(h) + 64
			}
		}
		if size < 16 {
			return 400000 // small constant sizes: a generous absolute cap (the families need a few thousand calls here)
		}
		return 0
	}
	viol := func(key, what string) bool {
		res.Violate(key, where+": "+what, cs)
		return true
	}
	res.Add("states", 1)
	var c1 int
	var v interface{}
	var err error
	var pm string
	var capped bool
	reused := false
	if k, ok := known[n]; ok && n > 40 && n%10 != 0 {
		// this size was already parsed (as the 2n of n/2) with the same grammar: reuse its count
		c1, reused = k, true
	} else {
		c1, v, err, pm, capped = c17Count(f, p, n, budgetFor(n))
		res.Add("transitions", int64(c1))
	}
	if capped {
		return viol("superpolynomial-growth", fmt.Sprintf("the parse of an input of %d bytes was aborted after %d parser calls (more than 16x the calls of half the size, or the absolute cap for small sizes)", len(f.input(n)), c1))
	}
	if pm != "" {
		return viol("panic", pm)
	}
	known[n] = c1
	if reused {
		// outcome and value of this size were judged when it was parsed as a 2n
	} else if f.reject {
		if err == nil {
			return viol("rejected-family-input-accepted", fmt.Sprintf("the input %q is not a sentence but the parse succeeds with %v", f.input(n), v))
		}
	} else if err != nil {
		return viol("family-input-rejected", fmt.Sprintf("the canonical input %q is rejected: %v", f.input(n), err))
	} else if why := f.check(n, v); why != "" {
		return viol("wrong-value", why)
	}
	// determinism on a fresh context AND a freshly built grammar
	if !reused {
		c1b, _, _, _, _ := c17Count(f, f.build(), n, 2*int64(c1)+64)
		if c1b != c1 {
			return viol("call-count-not-deterministic", fmt.Sprintf("call count %d on the first run, %d on a freshly built grammar", c1, c1b))
		}
	} else if k, ok := known[n]; ok && k != c1 {
		return viol("call-count-not-deterministic", "two parses of the same input gave different call counts")
	}
	if !reused && n <= 40 {
		// the same parse as the SECOND user of one file set (two contexts, one set — the normal multi-file set-up):
		// the count a context reports is its own
		in := f.input(n)
		fs, fl, rd, _ := place(placements[0], "f", []byte(in))
		ctxA := parsley.NewContext(fs, rd)
		func() {
			defer func() { recover() }()
			parsley.Evaluate(ctxA, p)
		}()
		ctxB := parsley.NewContext(fs, text.NewReader(fl))
		func() {
			defer func() { recover() }()
			parsley.Evaluate(ctxB, p)
		}()
		if ctxB.CallCount() != c1 {
			return viol("call-count-not-deterministic", fmt.Sprintf("call count %d, but %d for the same parse through a second context on the same file set", c1, ctxB.CallCount()))
		}
	}
	c2, v2, err2, pm2, capped2 := c17Count(f, p, 2*n, 16*int64(c1)+64)
	res.Add("transitions", int64(c2))
	if capped2 && n >= 8 {
		return viol("superpolynomial-growth", fmt.Sprintf("calls(n)=%d, and the parse of size 2n was aborted after more than 16*calls(n) calls", c1))
	}
	if capped2 {
		return false // n < 8: below "a small constant size" the ratio is not judged
	}
	if pm2 != "" || (err2 != nil) != f.reject {
		return viol("family-input-rejected", fmt.Sprintf("size 2n: unexpected outcome: %v %s", err2, pm2))
	}
	known[2*n] = c2
	if !f.reject {
		if why := f.check(2*n, v2); why != "" {
			return viol("wrong-value", "size 2n: "+why)
		}
	}
	ratio := float64(c2) / float64(c1)
	res.Add("traces", 1)
	res.Add("nontrivial", 1)
	res.Max("max_calls_single_parse", int64(c2))
	res.Outcome(fmt.Sprintf("%s: ratio %.0f", f.name, ratio))
	if verbose || n == 8 || n == 32 || n%50 == 0 {
		res.Sample(fmt.Sprintf("%s: calls(n)=%d calls(2n)=%d ratio %.2f", where, c1, c2, ratio))
	}
	if n >= 8 && c2 > 16*c1 {
		return viol("superpolynomial-growth", fmt.Sprintf("calls(n)=%d, calls(2n)=%d: doubling the input multiplied the work by %.1f > 16", c1, c2, ratio))
	}
	return false
}

func c17MaxN(tier string) int {
	if tier == "thorough" {
		return 400
	}
	return 150
}

func c17Run(env *explore.Env) *explore.Result {
	res := explore.NewResult()
	fams := c17Families()
	// one family per worker, sizes ascending: the counts of smaller sizes cap the work of larger ones, and a
	// family stops at its first violation (the smallest n)
	for fi := range fams {
		if !env.Mine(int64(fi)) {
			continue
		}
		known := map[int]int{}
		maxN := c17MaxN(env.Tier)
		if fams[fi].scale > 0 {
			maxN = int(float64(maxN) * fams[fi].scale)
		}
		res.Notes = append(res.Notes, fmt.Sprintf("family %q: every n in 4..%d", fams[fi].name, maxN))
		for n := 4; n <= maxN; n++ {
			if c17One(res, fams, fi, n, known, false) {
				res.Notes = append(res.Notes, fmt.Sprintf("family %q stopped at its first violation (n=%d)", fams[fi].name, n))
				break
			}
		}
	}
	return res
}

func c17Replay(raw json.RawMessage) *explore.Result {
	res := explore.NewResult()
	var crash struct {
		Shard  *int   `json:"crashed_shard"`
		Shards int    `json:"shards"`
		Tier   string `json:"tier"`
		Seed   int64  `json:"seed"`
	}
	if json.Unmarshal(raw, &crash) == nil && crash.Shard != nil {
		self, _ := os.Executable()
		cmd := exec.Command(self, "worker", "C17", crash.Tier, fmt.Sprint(*crash.Shard), fmt.Sprint(crash.Shards), fmt.Sprint(crash.Seed))
		cmd.Env = append(os.Environ(), "GOMAXPROCS=1", "GOTRACEBACK=single")
		out, err := cmd.CombinedOutput()
		if err != nil && (bytes.Contains(out, []byte("fatal error")) || bytes.Contains(out, []byte("stack exceeds"))) {
			res.Violate("worker-crash", "the worker died of a fatal runtime error again", json.RawMessage(raw))
		}
		return res
	}
	var c c17Case
	fams := c17Families()
	if err := json.Unmarshal(raw, &c); err != nil || c.Family < 0 || c.Family >= len(fams) {
		res.Notes = append(res.Notes, "bad case")
		return res
	}
	known := map[int]int{}
	c17Hist = nil
	if len(c.History) > 0 {
		// run what the process had run before, in order (verdicts of those steps are not this case's)
		per := map[int]map[int]int{}
		for _, st := range c.History {
			if st[0] < 0 || st[0] >= len(fams) {
				continue
			}
			if per[st[0]] == nil {
				per[st[0]] = map[int]int{}
			}
			c17One(explore.NewResult(), fams, st[0], st[1], per[st[0]], false)
		}
		if k := per[c.Family]; k != nil {
			known = k
		}
	} else if c.N >= 16 && c.N%2 == 0 {
		// rebuild the work caps the exploration had: parse half the size first (when the case is an even size >= 16)
		if h, _, _, _, capped := c17Count(&fams[c.Family], fams[c.Family].build(), c.N/2, 8000000); !capped {
			known[c.N/2] = h
		}
	}
	c17One(res, fams, c.Family, c.N, known, true)
	for _, s := range res.Samples {
		res.Notes = append(res.Notes, fmt.Sprint(s))
	}
	return res
}

func init() {
	explore.Register(&explore.Check{
		ID:    "C17",
		Level: "exploration",
		Rule: "22 families of unambiguous grammars (direct, mutual and hidden left recursion, expr/term/factor arithmetic (operators as one alternative, and one left-recursive alternative per operator) with several operator patterns and nested parentheses, nested brackets on nested and flat inputs, separated lists, a precedence ladder of six left-recursive levels, brackets whose alternatives share a prefix, and five families of REJECTED inputs — wrong first byte, dangling operator, missing closer, trailing garbage) x EVERY size n from 4 to the bound: the canonical inputs of size n and 2n are parsed; calls(2n) <= 16*calls(n) for n >= 8, identical call count on a freshly built grammar, parse succeeds with the expected value; " +
			"evaluation = one (family, n) pair; every evaluated pair is non-trivial (a successful parse of a left-recursive or nested input); a bounded statement about these families and lengths, not a proof of a polynomial bound",
		Assume:           []string{"Context.CallCount is the work measure the property names; ambiguous inputs (e.g. x-prefixed inputs of P -> x? P b | a) are outside the property and excluded"},
		Shards:           func(string) int { return len(c17Families()) },
		Run:              c17Run,
		CrashIsViolation: true, // a parse that overflows the stack has certainly not stayed polynomial
		Replay:           c17Replay,
		Bounds: func(tier string) map[string]any {
			return map[string]any{"families": len(c17Families()), "n_from": 4, "n_to": c17MaxN(tier), "largest_input_bytes_about": 2 * c17MaxN(tier)}
		},
	})
}
