# sourced by every script: offline Go environment; VERIF_DIR is wherever this checkout lives
export GOFLAGS=-mod=mod GOPROXY=off GOSUMDB=off GOTOOLCHAIN=local
export VERIF_DIR="${VERIF_DIR:-$(cd "$(dirname "${BASH_SOURCE[0]}")/.." && pwd)}"
export REPO_DIR="${REPO_DIR:-/repo}"
