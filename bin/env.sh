# sourced by every script: offline Go environment
export GOFLAGS=-mod=mod GOPROXY=off GOSUMDB=off GOTOOLCHAIN=local
export VERIF_DIR="${VERIF_DIR:-/verif}"
export REPO_DIR="${REPO_DIR:-/repo}"
